"""C15 - periodic saving heals itself."""
import hashlib
import json.encoder
import os

from checks import diskutil
from sim import fs as simfs
from sim import kernel
from sim import world as W

ID = "C15"
LEVEL = "exploration"
RULE = ("real threaded gateway (threading.Timer chain on the simulated clock) and asyncio gateway (save task + executor thread) with "
        "persistence on SimFS and live traffic through the real pump/loop; per run 3-6 scheduled saves with a fault script: a transient "
        "EIO / ENOSPC / EACCES at a drawn file-system operation of a drawn save attempt, and/or a contention window: traffic that adds a "
        "node, a child or a value is injected at the instant a save starts and the scheduler pre-empts the saving thread at source-line "
        "events inside serialisation (Sensor.__getstate__, MySensorsJSONEncoder.default, json.encoder, save_sensors). Oracle: no timer "
        "thread / save task dies; after a failed attempt a fresh gateway still loads the disk, the state stays marked unsaved and a later "
        "attempt is made; once faults and traffic stop a load from the disk equals the current state within 25 simulated seconds; stop() "
        "does not raise and a restart reproduces the state. non-trivial = an attempt failed or overlapped a mutation and a later attempt "
        "was made; distinct = distinct run digests")
TIERS = {
    "quick": {"runs": 1200, "max_wall": 240, "minimise_s": 25, "chunk": 25},
    "thorough": {"runs": 40000, "max_wall": 3000, "minimise_s": 60, "chunk": 100},
}
FAULT_KINDS = ["NOMEM (a failing allocation: MemoryError, not an OSError, out of a file operation of the save)", "EIO", "ENOSPC (short write)", "EACCES", "ETIMEDOUT (network file system)", "directory not writable during one attempt (save refused without raising)", "mutation during serialisation (schedule)", "mutation between write and flag clear",
               "stop() at the instant a scheduled save fails (threaded): stop's own save is the next attempt"]
REAL = ["mysensors.task (_schedule_factory of SyncTasks and AsyncTasks, stop)", "mysensors.persistence", "pickle / json serialisers", "pump, reader, handlers"]
STUBS = ["threading.Timer -> SimTimer", "asyncio loop clock and executor (kernel controlled threads)", "file system (SimFS)", "serial port / socket"]
ASSUMPTIONS = ["pre-emption at Python source lines (mysensors/*, json/encoder.py) and at blocking shims; the C pickler is atomic between __getstate__ calls"]
REQUIRED_PROBES = ["attempts_failed", "save_overlapped_mutation", "attempts_after_failure", "final_state_persisted"]

WINDOW_NAMES = {"save_sensors", "_save_json", "_save_pickle", "_perform_file_action", "__getstate__", "default", "_iterencode",
                "_iterencode_dict", "_iterencode_list", "schedule_save", "save_on_schedule", "logic", "alert", "handle_set",
                "handle_presentation", "add_sensor", "add_child_sensor", "update_child_value", "handle_sketch_name", "handle_battery_level"}
KINDS = ["EIO", "ENOSPC", "EACCES", "ETIMEDOUT", "RODIR", "NOMEM"]


def window(code):
    return code.co_name in WINDOW_NAMES


def gen(rng, tier, index):
    version = rng.choice(["1.4", "2.0", "2.2"])
    flavour = rng.choice(["serial", "serial", "aserial", "aserial", "tcp"])
    contention = rng.random() < 0.6
    if contention:
        policy = rng.choice(["rw", "rw", "pct"])
        sched = {"policy": policy, "seed": rng.getrandbits(32)}
        if policy == "rw":
            sched["p"] = rng.choice([0.002, 0.01, 0.05])
        else:
            sched["k"] = rng.choice([1, 2, 3])
            sched["horizon"] = rng.choice([300, 1500, 6000])
    else:
        sched = {"policy": "serial"}
    periods = rng.randint(3, 6)
    faults = {}
    if not contention or rng.random() < 0.4:
        for _ in range(rng.randint(1, 2)):
            faults[str(rng.randrange(0, periods))] = [rng.random(), rng.random(), rng.choice(KINDS)]
        if rng.random() < 0.25:
            # two failures in a row, the first between the two renames (only the backup is good after it)
            k = rng.randrange(0, periods - 1)
            faults[str(k)] = [5.5 / 7, 0.75, rng.choice(["EIO", "ENOSPC", "EACCES"])]
            faults[str(k + 1)] = [rng.random(), rng.random(), rng.choice(["EIO", "ENOSPC", "EACCES"])]
    ops = []
    node = 1
    for per in range(periods):
        at_save = []
        if contention:
            for _ in range(rng.randint(1, 3)):
                what = rng.randrange(4)
                if what == 0:
                    node += 1
                    at_save.append(f"{node};255;0;0;17;2.0")
                elif what == 1:
                    at_save.append(f"{rng.randint(1, node)};{rng.randint(0, 40)};0;0;{rng.choice([0, 3, 6, 23])};c{per}")
                elif what == 2:
                    at_save.append(f"1;1;1;0;{rng.choice([0, 24, 25, 26, 27, 28, 38, 39])};v{per}{rng.randrange(100)}")
                else:
                    at_save.append(f"{rng.randint(1, node)};255;3;0;{rng.choice([11, 12])};s{per}{rng.randrange(100)}")
        mid = [f"1;1;1;0;{rng.choice([0, 24, 25])};m{per}{rng.randrange(1000)}"] if rng.random() < 0.85 else []
        ops.append({"at_save": at_save, "mid": mid, "mid_at": rng.choice([0.5, 3.0, 9.0, 9.97, 9.99])})
    cfg = {"flavour": flavour, "version": version, "fmt": rng.choice(["pickle", "json"]), "bufsize": rng.choice([64, 512, 8192]),
           "faults": faults, "sched": sched, "base": diskutil.state_lines(rng, version, rng.randint(3, 14))}
    if flavour in ("serial", "tcp") and rng.random() < 0.3:
        cfg["stop_at_fault"] = [rng.random(), rng.random(), rng.choice(["EIO", "ENOSPC", "EACCES"])]
        if sched["policy"] == "serial":
            cfg["sched"] = {"policy": "rw", "seed": rng.getrandbits(32), "p": rng.choice([0.002, 0.01, 0.05])}
    return {"cfg": cfg, "ops": ops}


def _vio(cls, detail, **sig):
    sig["class"] = cls
    return {"class": cls, "detail": detail, "signature": sig, "owner": "C15"}


class Watch:
    """Observes scheduled saves: every save_sensors() call through the world's save hook
    (tick, dirty?, outcome) and the file-system operations of an attempt through the SimFS
    trace hook (both run inside the saving thread)."""

    def __init__(self, world, fs, path, faults, periods):
        self.world, self.fs, self.path = world, fs, path
        self.faults = faults
        self.periods = periods
        self.ticks = []  # every scheduled call: {t, role, dirty}
        self.attempts = []  # ticks with something to save: n, t, fired, completed, exc, overlap
        self.inject = None  # bytes to inject when the next attempt starts
        self.inject_more = []  # further batches, one per (re)open of the temp file within an attempt
        self.current = None
        self.starting = False  # inside start_persistence(): the first scheduled save runs in the caller's thread (threaded flavours)
        world.sim.save_hook = self.hook

    def hook(self, phase, persistence, exc):
        sim = self.world.sim
        role = sim.current.role if sim.current is not None else "?"
        if role not in ("timer", "executor") and not self.starting:
            return
        if phase == "begin":
            tick = {"t": sim.now, "role": role, "dirty": bool(persistence.need_save)}
            self.ticks.append(tick)
            self.current = None
            if persistence.need_save:
                rec = {"n": len(self.attempts), "t": sim.now, "fired": False, "completed": False, "exc": None, "pending": None,
                       "logic_at_start": sim.stats.get("logic_calls", 0), "main_before": self.fs.get(self.path),
                       "bak_before": self.fs.get(self.path + ".bak"),
                       "nodes_at_start": sorted(self.world.gateway.sensors, key=repr) if self.world.gateway is not None else []}
                self.attempts.append(rec)
                self.current = rec
                spec = self.faults.get(str(rec["n"]))
                self.fs.disarm()
                if spec is not None and spec[2] == "RODIR":
                    # the directory is not writable for the duration of this attempt: the library
                    # refuses the save without raising
                    self.fs.readonly.add("/work")
                    rec["fired"] = ("access", "RODIR")
                    rec["refused"] = True
                elif spec is not None:
                    rec["pending"] = spec
                    self.fs.arm({})
                if self.inject:
                    data, self.inject = self.inject, None
                    self.world.device.inject(data)
        else:
            rec = self.current
            self.fs.disarm()
            self.fs.readonly.discard("/work")
            if rec is not None:
                rec["completed"] = exc is None and not rec.get("refused")
                rec["exc"] = None if exc is None else repr(exc)
                rec["need_save_after"] = bool(persistence.need_save)
                if sim.stats.get("logic_calls", 0) != rec["logic_at_start"]:
                    rec["overlap"] = True
                elif self.world.gateway is not None:
                    rec["state_at_end"] = W.projection(self.world.gateway.sensors)  # == what was serialised

            self.current = None

    def trace(self, opname, path):
        rec = self.current
        if rec is None:
            return
        cur = self.world.sim.current
        if cur is None or (cur.role not in ("timer", "executor") and not self.starting):
            return  # an operation of another save (stop()'s own): the fault script is for scheduled attempts
        if opname == "open" and self.inject_more:
            # more traffic arrives whenever this attempt (re)opens its temp file: a second pass over the data, if the
            # library makes one, is disturbed like the first
            self.world.device.inject(self.inject_more.pop(0))
        if rec.get("pending") is not None and self.fs.armed:
            # the faulting operation is chosen lazily among the operations of this attempt:
            # operation kind by the first draw, (for writes) an early or a late one by the second
            frac_kind, frac_pos, kind = rec["pending"]
            groups = ["open", "write", "flush", "fsync", "close", "rename", "remove"]
            target = groups[min(len(groups) - 1, int(frac_kind * len(groups)))]
            seen = rec.setdefault("seen", {})
            seen[opname] = seen.get(opname, 0) + 1
            want_nth = 2 if (target == "rename" and frac_pos >= 0.5) else 1  # the second rename is the critical one
            if opname == target and seen[opname] >= want_nth and (target != "write" or frac_pos < 0.5 or self.fs.opno > 3):
                rec["pending"] = None
                rec["fired"] = (opname, kind)
                self.fs.plan[self.fs.opno] = kind


def run(case):
    cfg = case["cfg"]
    flavour = cfg["flavour"]
    fmt = cfg["fmt"]
    path = f"/work/mysensors.{fmt}"
    fs = simfs.SimFS(bufsize=cfg["bufsize"])
    world = W.World(flavour, {"protocol_version": cfg["version"], "persistence": True, "persistence_file": path}, fs=fs,
                    sched=cfg["sched"], window=window, traced_extra=(json.encoder.__file__,), max_steps=1_500_000)
    sim = world.sim
    violations, probes, faults = [], {}, {}
    incomplete = None
    watch = Watch(world, fs, path, cfg["faults"], len(case["ops"]))
    fs.trace = watch.trace
    try:
        try:
            gateway = world.build()
            watch.starting = True
            try:
                world.start(persistence=True)
            finally:
                watch.starting = False
            world.feed("1;255;0;0;17;2.0\n1;1;0;0;23;x\n" + "".join(line + "\n" for line in cfg["base"]))
            t_next = 10.0
            for period in case["ops"]:
                # traffic in the middle of the period keeps the state dirty
                now = sim.now
                target_mid = max(now, t_next - 10.0 + period["mid_at"])
                if target_mid > now:
                    world.advance(target_mid - now)
                for line in period["mid"]:
                    world.feed(line + "\n")
                if period["at_save"]:
                    lines = period["at_save"]
                    if len(lines) >= 2:
                        watch.inject = (lines[0] + "\n").encode()
                        watch.inject_more = [(ln + "\n").encode() for ln in lines[1:]]
                    else:
                        watch.inject = "".join(line + "\n" for line in lines).encode()
                n_before = len(watch.attempts)
                # run past the next scheduled save
                world.advance(max(0.0, t_next - sim.now) + 0.6)
                if watch.inject is not None:
                    # no attempt started (nothing to save, or the chain is dead): deliver the traffic anyway
                    data, watch.inject = watch.inject, None
                    world.feed(data)
                if watch.inject_more:
                    data, watch.inject_more = b"".join(watch.inject_more), []
                    world.feed(data)
                t_next = (watch.attempts[-1]["t"] if len(watch.attempts) > n_before else t_next) + 10.0
                _check_after_period(world, gateway, watch, fs, cfg, violations, probes, n_before)
                if violations:
                    break
            if not violations:
                _final(world, gateway, watch, fs, cfg, violations, probes)
        except kernel.SimAbort as exc:
            incomplete = str(exc)
        except kernel.Deadlock as exc:
            incomplete = "deadlock: " + str(exc)[:200]
    finally:
        for rec in watch.attempts:
            if rec.get("fired"):
                faults[rec["fired"][1]] = faults.get(rec["fired"][1], 0) + 1
        digest = sim.digest()
        steps = sim.steps
        now = sim.now
        inter = sim.switch_digest() if sim.preemptions else None
        sched = sim.decisions() if sim.tracing else None
        fs.trace = None
        world.close()
    nontrivial = bool((probes.get("attempts_failed") or probes.get("save_overlapped_mutation")) and probes.get("attempts_after_failure"))
    return {"violations": violations, "digest": digest, "nontrivial": nontrivial, "key": digest, "probes": probes, "faults": faults,
            "steps": steps, "sim_seconds": now, "incomplete": incomplete, "interleaving": inter, "sched": sched, "states": [],
            "sample": {"cfg": {k: v for k, v in cfg.items() if k not in ("base", "sched")}, "policy": cfg["sched"].get("policy"),
                       "periods": case["ops"][:3],
                       "attempts": [{k: v for k, v in a.items() if k in ("n", "t", "fired", "completed", "exc", "overlap")} for a in watch.attempts][:8]}}


def _load_clone(world, fs, cfg):
    """What a fresh gateway would load from the disk as it is right now."""
    real_fs = world.fs
    clone = fs.clone()
    clone.trace = None
    simfs.FsHolder.fs = clone
    world.fs = clone
    try:
        gw = world.build()
        gw_prev = world.gateways[-2] if len(world.gateways) > 1 else None
        try:
            gw.tasks.persistence.safe_load_sensors()
            err = None
        except Exception as exc:  # pylint: disable=broad-except
            err = exc
        return err, W.projection(gw.sensors), gw_prev
    finally:
        simfs.FsHolder.fs = real_fs
        world.fs = real_fs


def _check_after_period(world, gateway, watch, fs, cfg, violations, probes, n_before):
    sim = world.sim
    world.gateway = gateway
    for role, exc, trace in sim.died:
        if role in ("timer", "executor", "_poll_queue", "loop"):
            violations.append(_vio("thread-died", {"role": role, "exc": exc, "trace": trace[-1500:]}, role=role, exc=exc.split("(")[0]))
    del sim.died[:]
    if world.loop is not None and world.loop.exceptions:
        for msg, exc in world.loop.exceptions:
            violations.append(_vio("loop-exception", {"message": msg, "exc": exc}, exc=exc.split("(")[0]))
        del world.loop.exceptions[:]
    task_exc = _save_task_failure(gateway)
    if task_exc is not None:
        violations.append(_vio("save-task-died", {"exc": repr(task_exc)}, exc=type(task_exc).__name__))
    new = watch.attempts[n_before:]
    ticks = [t["t"] for t in watch.ticks]
    if not violations:
        if not ticks or sim.now - ticks[-1] > 10.0 + 0.5:
            violations.append(_vio("schedule-stopped", {"t": round(sim.now, 3), "ticks": [round(t, 3) for t in ticks][-5:],
                                                        "note": "no scheduled save call for more than 10.5 simulated seconds"}, flavour=cfg["flavour"]))
        for a, b in zip(ticks, ticks[1:]):
            if not 10.0 - 1e-6 <= b - a <= 10.0 + 0.5:
                violations.append(_vio("schedule-spacing", {"ticks": [round(t, 3) for t in ticks][-6:]}, flavour=cfg["flavour"]))
                break
    for rec in new:
        probes["attempts"] = probes.get("attempts", 0) + 1
        if watch.attempts[: rec["n"]] and any(not a["completed"] for a in watch.attempts[: rec["n"]]):
            probes["attempts_after_failure"] = 1
        if rec["completed"] and rec is watch.attempts[-1] and not violations:
            # an attempt that reported success left a file behind: it loads, and no node that existed when the attempt
            # began is missing from it (whatever arrived DURING the attempt may or may not be in it)
            err, state, _ = _load_clone(world, fs, cfg)
            world.gateway = gateway
            lost = [n for n in rec.get("nodes_at_start", []) if n not in state]
            if err is not None or lost:
                violations.append(_vio("completed-save-left-bad-file", {"attempt": rec["n"], "exc": repr(err), "nodes_lost": lost[:6], "overlap": bool(rec.get("overlap"))},
                                       overlap=bool(rec.get("overlap"))))
            else:
                probes["file_after_completed_attempt_checked"] = probes.get("file_after_completed_attempt_checked", 0) + 1
        if not rec["completed"]:
            probes["attempts_failed"] = probes.get("attempts_failed", 0) + 1
            err, state, _ = _load_clone(world, fs, cfg)
            world.gateway = gateway
            if err is not None:
                violations.append(_vio("previous-file-not-loadable", {"exc": repr(err), "attempt": rec["n"], "fault": rec.get("fired"), "save_exc": rec.get("exc")},
                                       exc=type(err).__name__))
            elif (rec.get("main_before") is not None or rec.get("bak_before") is not None) and "state_at_end" in rec and rec is watch.attempts[-1]:
                # the disk must still give what the files held before this attempt (the main file, or - after an
                # earlier failure between the renames - the backup), or the complete new state when the failure
                # came after the second rename
                scratch = simfs.SimFS()
                if rec.get("main_before") is not None:
                    scratch.put(watch.path, rec["main_before"])
                if rec.get("bak_before") is not None:
                    scratch.put(watch.path + ".bak", rec["bak_before"])
                _e, previous, _ = _load_clone(world, scratch, cfg)
                world.gateway = gateway
                if state != previous and state != rec["state_at_end"]:
                    violations.append(_vio("previous-file-lost", {"attempt": rec["n"], "fault": rec.get("fired"), "save_exc": rec.get("exc"),
                                                                  "loaded_nodes": sorted(state, key=repr), "previous_nodes": sorted(previous, key=repr)},
                                           op=(rec.get("fired") or ["?"])[0]))
                else:
                    probes["previous_file_content_checked"] = probes.get("previous_file_content_checked", 0) + 1
            if not rec.get("need_save_after", True):
                violations.append(_vio("dirty-flag-cleared-after-failure", {"attempt": rec["n"], "fault": rec.get("fired"), "save_exc": rec.get("exc")}))
    world.gateway = gateway


def _save_task_failure(gateway):
    tasks = gateway.tasks
    cancel = getattr(tasks, "_cancel_save", None)
    if cancel is None or not hasattr(cancel, "__closure__") or cancel.__closure__ is None:
        return None
    for cell in cancel.__closure__:
        obj = cell.cell_contents
        if hasattr(obj, "done") and hasattr(obj, "exception"):
            if obj.done() and not obj.cancelled():
                return obj.exception() or RuntimeError("save task finished")
    return None


def _final_stop_at_fault(world, gateway, watch, fs, cfg, violations, probes):
    """The application stops the (threaded) gateway at the instant a scheduled save begins, and that save
    hits a transient fault: stop()'s own save is then "the next attempt" - it must persist the current state."""
    sim = world.sim
    frac_kind, frac_pos, kind = cfg["stop_at_fault"]
    watch.faults = {str(len(watch.attempts)): [frac_kind, frac_pos, kind if kind != "RODIR" else "EIO"]}
    world.feed("1;1;1;0;24;last word\n")
    ticks = [t["t"] for t in watch.ticks]
    dt = (ticks[-1] + 10.0 - sim.now) if ticks else 0.0
    if dt > 0:
        sim.sleep(dt)
    n0 = len(watch.attempts)
    try:
        world.stop()
    except Exception as exc:  # pylint: disable=broad-except
        violations.append(_vio("stop-raised", {"exc": repr(exc)}, exc=type(exc).__name__))
        return
    want = W.projection(gateway.sensors)
    err, got, _ = _load_clone(world, fs, cfg)
    world.gateway = gateway
    world.settle()
    new = watch.attempts[n0:]
    if new and not new[-1]["completed"]:
        probes["stop_while_failing_attempt"] = 1
        probes["attempts_failed"] = probes.get("attempts_failed", 0) + 1
        probes["attempts_after_failure"] = 1
    if err is not None or got != want:
        diff = [k for k in set(want) | set(got) if want.get(k) != got.get(k)]
        violations.append(_vio("stop-lost-state", {"exc": repr(err), "nodes_differ": sorted(diff, key=repr)[:6], "when": "stop() at a failing scheduled save",
                                                   "attempt": [{k: v for k, v in a.items() if k in ("n", "fired", "completed", "exc")} for a in new]},
                               when="stop-at-failing-save"))
    else:
        probes["final_state_persisted"] = 1


def _final(world, gateway, watch, fs, cfg, violations, probes):
    if cfg.get("stop_at_fault") and cfg["flavour"] in ("serial", "tcp"):
        _final_stop_at_fault(world, gateway, watch, fs, cfg, violations, probes)
        return
    sim = world.sim
    fs.disarm()
    watch.faults = {}
    n0 = len(watch.attempts)
    world.advance(25.0)
    _check_after_period(world, gateway, watch, fs, cfg, violations, probes, n0)
    if violations:
        return
    want = W.projection(gateway.sensors)
    err, got, _ = _load_clone(world, fs, cfg)
    world.gateway = gateway
    if err is not None or got != want:
        diff = [k for k in set(want) | set(got) if want.get(k) != got.get(k)]
        violations.append(_vio("state-not-persisted-after-quiet-period", {"exc": repr(err), "nodes_differ": sorted(diff)[:6],
                                                                          "attempts": [(a["n"], round(a["t"], 2), a["completed"]) for a in watch.attempts][-6:],
                                                                          "need_save": gateway.tasks.persistence.need_save},
                               need_save=gateway.tasks.persistence.need_save))
        return
    probes["final_state_persisted"] = 1
    if any(a.get("overlap") for a in watch.attempts):
        probes["save_overlapped_mutation"] = 1
    try:
        world.stop()
    except Exception as exc:  # pylint: disable=broad-except
        violations.append(_vio("stop-raised", {"exc": repr(exc)}, exc=type(exc).__name__))
        return
    world.settle()
    err, got, _ = _load_clone(world, fs, cfg)
    if err is not None or got != want:
        violations.append(_vio("stop-lost-state", {"exc": repr(err)}))


def shrinkers(case):
    cfg = case["cfg"]
    if cfg["faults"]:
        for key in list(cfg["faults"]):
            cand = {"cfg": dict(cfg, faults={k: v for k, v in cfg["faults"].items() if k != key}), "ops": case["ops"]}
            for extra in ("seed", "index", "property"):
                if extra in case:
                    cand[extra] = case[extra]
            yield cand
    if len(cfg["base"]) > 1:
        cand = dict(case)
        cand["cfg"] = dict(cfg, base=cfg["base"][: len(cfg["base"]) // 2])
        yield cand
