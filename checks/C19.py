"""C19 - behaviour depends only on the lines received (segmentation / flavour independence)."""
import hashlib

from checks import netgen
from sim import kernel
from sim import world as W

ID = "C19"
LEVEL = "exploration"
RULE = ("differential: one inbound byte stream built from a simulated multi-node history (valid frames incl. smart-sleep traffic, "
        "garbage, CRLF and LF endings, multi-byte UTF-8 payloads, invalid UTF-8 bytes, an unterminated tail) is executed 4-7 times: "
        "reference = asyncio serial gateway, one line per chunk; variants = drawn flavour (threaded serial / threaded TCP with 120-byte "
        "reads / asyncio serial / asyncio TCP), drawn segmentation (1-byte chunks, random cuts incl. inside a multi-byte character and "
        "between CR and LF, everything in one chunk, 120-byte blocks) and drawn reader/pump schedule (serial, random-walk or PCT "
        "pre-emption; 20% of the threaded variants are TAIL RACES: the last two lines arrive back to back with one or two forced "
        "switches inside the poll loop counted from the arrival of the first). Time-reply payloads and the TCP watchdog's own probes are normalised away. Oracle: every variant ends with the "
        "same node/child/value tree and the same ordered list of emitted commands as the reference. non-trivial = the stream has a "
        "split multi-byte character or CR|LF split, a wake-up burst, and >=2 lines delivered in one chunk to a threaded flavour; "
        "distinct = distinct run digests")
TIERS = {
    "quick": {"runs": 900, "max_wall": 240, "minimise_s": 30, "chunk": 20},
    "thorough": {"runs": 40000, "max_wall": 3000, "minimise_s": 90, "chunk": 100},
}
FAULT_KINDS = ["chunk boundary inside a multi-byte character", "chunk boundary between CR and LF", "1-byte chunks", "whole stream in one chunk",
               "120-byte socket reads", "reader/pump pre-emption"]
REAL = ["mysensors.transport (LineReader framing, handle_line)", "serial.threaded (Packetizer, ReaderThread)", "mysensors.gateway_tcp.TCPTransport",
        "mysensors.task (SyncTasks pump, AsyncTasks inline jobs)", "handlers"]
STUBS = ["serial port / socket / asyncio transports", "thread scheduling", "clock"]
ASSUMPTIONS = ["no controller calls (the statement is about received lines only)",
               "time replies and TCP version probes are driven by the clock, not by lines: normalised before comparing"]
REQUIRED_PROBES = ["split_inside_utf8", "split_cr_lf", "multi_line_chunk_sync", "wakeup_in_stream"]

WEIGHTS = {"present_node": 8, "present_child": 10, "value": 14, "req": 12, "heartbeat": 10, "presleep": 10, "config": 5, "time": 3,
           "idreq": 3, "battery": 3, "sketch": 4, "unknown_traffic": 5, "invalid_frame": 3, "garbage": 4, "gwready": 2, "discover_resp": 1,
           "internal_other": 2, "stream_cfg": 1, "stream_blk": 1, "stream_bad": 1, "stream_other": 1, "ctl_set": 0, "ctl_fw": 0, "metric": 0,
           "advance": 0, "adopt": 0}
FLAVOURS = ["serial", "tcp", "aserial", "atcp"]


def gen(rng, tier, index):
    version = rng.choice(["1.4", "1.5", "2.0", "2.0", "2.1", "2.2", "2.2"])
    # a quarter of the streams are long bursts (several KiB piled up in the OS buffer)
    roll = rng.random()
    n_lines = rng.randint(8, 40) if roll < 0.72 else (rng.randint(60, 160) if roll < 0.95 else rng.randint(280, 420))
    ops = netgen.make_ops(rng, version, n_lines, WEIGHTS, nodes=(1, 3), scenario=0.3)
    stream = bytearray()
    if rng.random() < 0.15:
        # boot noise in front of the first frame (what a gateway emits while it resets): part of that first line
        stream += rng.choice([b"\x00\x00", b"\x00\x00\x00", b"\x00\x00\x00\x00\x00", b"\xff\x00", b"\x00\xfe\x00"])
    line_ends = []
    for op in ops:
        if op[0] != "line":
            continue
        data = op[1].encode("utf-8")
        if rng.random() < 0.06 and data:
            pos = rng.randrange(len(data))
            data = data[:pos] + bytes([rng.choice([0xFF, 0xC3, 0xE2, 0x80, 0xF0])]) + data[pos:]
        if rng.random() < 0.07 and data:
            # characters that some text APIs (str.splitlines) take for line ends, inside a line: lone CR, VT, FF, FS/GS/RS,
            # NEL, LINE / PARAGRAPH SEPARATOR - only LF ends a line on this wire
            pos = rng.randrange(len(data) + 1)
            while 0 < pos < len(data) and (data[pos] & 0xC0) == 0x80:
                pos += 1  # not inside a multi-byte character
            data = data[:pos] + rng.choice([b"\r", b"\x0b", b"\x0c", b"\x1c", b"\x1d", b"\x1e", b"\xc2\x85", b"\xe2\x80\xa8", b"\xe2\x80\xa9"]) + data[pos:]
        data = data.replace(b"\n", b" ")
        stream += data + (b"\r\n" if rng.random() < 0.35 else b"\n")
        line_ends.append(len(stream))
    if rng.random() < 0.5:
        stream += rng.choice([b"1;1;1;0;0;unterminated", b"1;255;3;0;6", b"\xe2\x82", b"\r", b"7;255;0;0;17;2.0\r"])
    stream = bytes(stream)
    variants = []
    for _ in range(rng.randint(3, 6)):
        flavour = rng.choice(FLAVOURS)
        seg = rng.choice(["bytes", "random", "random", "one", "blocks", "lines", "pairs", "head_tail", "head_tail"])
        if len(stream) > 2500 and seg == "bytes":
            seg = "head_tail"
        cuts = []
        if seg == "head_tail":
            # a few bytes (a cut inside a line), then everything else in one read
            seg = "random"
            base = rng.choice([0] + line_ends[:3]) if line_ends else 0
            cuts = [min(max(1, base + rng.randint(1, 12)), max(1, len(stream) - 1))]
        elif seg == "random":
            n = rng.randint(1, max(1, len(stream) // 7))
            cuts = sorted(set(rng.randrange(1, max(2, len(stream))) for _ in range(n)))
        pol = rng.random()
        if flavour in ("serial", "tcp") and pol < 0.5:
            policy = rng.choice(["rw", "pct"])
            sched = {"policy": policy, "seed": rng.getrandbits(32)}
            if policy == "rw":
                sched["p"] = rng.choice([0.002, 0.01, 0.05])
            else:
                sched["k"] = rng.choice([1, 2, 3])
                sched["horizon"] = rng.choice([500, 3000, 20000])
        else:
            sched = {"policy": "serial"}
        var = {"flavour": flavour, "seg": seg, "cuts": cuts, "sched": sched, "gap": rng.choice([0.0, 0.0, 0.001, 0.03])}
        if rng.random() < 0.12 and len(stream) < 1500 and seg != "bytes":
            var["gap"] = rng.choice([1.2, 2.5, 11.0])  # a slow trickle: seconds between chunks (also in the middle of a line)
        if flavour in ("serial", "tcp") and rng.random() < 0.2:
            # the last two lines arrive back to back while the poll thread is just finishing the first of them:
            # one or two forced switches inside the poll loop, counted from the arrival of the first
            var.update(seg="lines", cuts=[], gap=0.03, tail_race=True,
                       sched={"policy": "pct", "seed": rng.getrandbits(32), "k": rng.choice([1, 2]), "horizon": rng.choice([8, 12]), "arm": True})
            if rng.random() < 0.6:
                var["tail_race"] = "at_switch"
                var["sched"].update(k=rng.choice([2, 3]), horizon=rng.choice([14, 20, 28]))
        elif flavour in ("serial", "tcp") and rng.random() < 0.25:
            # bytes waiting at connect, and at every Thread.start() the scheduler decides whether the new thread or its
            # creator runs first
            var.update(seg="lines", cuts=[], head_at_connect=rng.choice([1, 2, 3, 5]),
                       sched={"policy": "rw", "seed": rng.getrandbits(32), "p": rng.choice([0.0, 0.0, 0.01]), "start_handoff": rng.choice([0.5, 0.8, 0.95])})
        elif rng.random() < 0.05:
            var.update(seg="lines", cuts=[], head_at_connect=rng.choice([1, 2, 3, 5]))
        variants.append(var)
    return {"cfg": {"version": version, "stream": stream.hex(), "line_ends": line_ends}, "ops": variants}


def _segments(stream, line_ends, seg, cuts):
    if seg == "bytes":
        return [stream[i:i + 1] for i in range(len(stream))]
    if seg == "one":
        return [stream]
    if seg == "blocks":
        return [stream[i:i + 120] for i in range(0, len(stream), 120)]
    if seg == "lines":
        bounds = [0] + list(line_ends) + [len(stream)]
    elif seg == "pairs":
        bounds = [0] + list(line_ends)[1::2] + [len(stream)]
    else:
        bounds = [0] + [c for c in cuts if 0 < c < len(stream)] + [len(stream)]
    bounds = sorted(set(bounds))
    return [stream[a:b] for a, b in zip(bounds, bounds[1:]) if b > a]


def _normalise(lines, flavour):
    out = []
    for line in lines:
        if flavour in ("tcp", "atcp") and line == "0;255;3;0;2;":
            continue
        parts = line.split(";", 5)
        if len(parts) == 6 and parts[2] == "3" and parts[4] == "1":
            parts[5] = "<time>"
            line = ";".join(parts)
        out.append(line)
    return out


def _execute(version, stream, line_ends, variant, probes):
    flavour = variant["flavour"]
    # a huge reconnect timeout keeps the TCP watchdog (clock driven, its answers would be
    # spliced into the byte stream under test) out of the picture
    world = W.World(flavour, {"protocol_version": version, "reconnect_timeout": 1e7}, sched=variant["sched"], max_steps=2_000_000,
                    window=(lambda code: code.co_name == "_poll_queue") if variant.get("tail_race") else None)
    sim = world.sim
    res = {"incomplete": None}
    try:
        try:
            gateway = world.build()
            segs = _segments(stream, line_ends, variant["seg"], variant["cuts"])
            base = len(world.device.writes)
            if variant.get("head_at_connect") and len(segs) >= 2:
                # the first lines are already waiting when the connection is established (the gateway device talks as soon as
                # it is opened): they are handled while start() is still on its way
                k_head = min(int(variant["head_at_connect"]), len(segs) - 1)
                world.device.greeting = b"".join(segs[:k_head])
                segs = segs[k_head:]
                probes["streams_with_bytes_waiting_at_connect"] = probes.get("streams_with_bytes_waiting_at_connect", 0) + 1
            world.start()
            # index of the last COMPLETE line among the per-line segments (a trailing unterminated fragment is not a line)
            last_line = len(segs) - 1 if stream.endswith(b"\n") else len(segs) - 2
            skip_next = False
            for k, seg in enumerate(segs):
                if skip_next:
                    skip_next = False
                    continue
                world.device.inject(seg)
                if variant.get("tail_race") == "at_switch" and k == last_line - 1 and last_line >= 1:
                    # the last line arrives at exactly the instant the poll thread, busy with the line before it, is taken off
                    # the CPU at a drawn change point of its loop (the reader then frames and queues it before the poll thread
                    # goes on) - and nothing follows
                    probes["tail_races"] = probes.get("tail_races", 0) + 1
                    last = segs[last_line]
                    sim.pct_arm()
                    sim.on_preempt = lambda: world.device.inject(last)
                    sim.sleep(0.5)
                    if sim.on_preempt is not None:
                        sim.on_preempt = None
                        world.device.inject(last)  # no change point came up: delivered now
                    else:
                        probes["tail_line_delivered_at_a_switch"] = probes.get("tail_line_delivered_at_a_switch", 0) + 1
                    sim.sleep(0.5)
                    skip_next = True  # (an unterminated fragment behind the last line follows as usual)
                    continue
                if variant.get("tail_race") and k == len(segs) - 2:
                    probes["tail_races"] = probes.get("tail_races", 0) + 1
                    sim.pct_arm()
                    sim.yield_point()  # the next line is right behind: no time passes, who runs is the scheduler's call
                    continue
                if variant["gap"] > 0:
                    sim.sleep(variant["gap"])
                elif variant["seg"] != "bytes":
                    world.settle()
                if b"\n" in seg[:-1] and flavour in ("serial", "tcp"):
                    probes["multi_line_chunk_sync"] = 1
            world.settle()
            world.advance(0.2)
            lines = world.written_lines(base)
            res["log"] = _normalise(lines, flavour)
            res["state"] = W.projection(gateway.sensors)
            res["died"] = [(d[0], d[1]) for d in sim.died]
            res["loop_exc"] = list(world.loop.exceptions) if world.loop is not None else []
        except kernel.SimAbort as exc:
            res["incomplete"] = str(exc)
        except kernel.Deadlock as exc:
            res["incomplete"] = "deadlock: " + str(exc)[:150]
    finally:
        res["digest"] = sim.digest()
        res["steps"] = sim.steps
        res["sim_seconds"] = sim.now
        res["inter"] = sim.switch_digest() if sim.preemptions else None
        res["sched"] = sim.decisions() if sim.tracing else None
        world.close()
    return res


def _vio(cls, detail, **sig):
    sig["class"] = cls
    return {"class": cls, "detail": detail, "signature": sig, "owner": "C19"}


def _shape(ref_log, log):
    if sorted(ref_log) == sorted(log):
        # same commands, other order: where does the first moved command come from?
        for i, (a, b) in enumerate(zip(ref_log, log)):
            if a != b:
                moved = a
                parts = moved.split(";")
                kind = "set" if len(parts) > 2 and parts[2] == "1" else ("internal" if len(parts) > 2 and parts[2] == "3" else "other")
                return "order", {"first_difference_at": i, "reference_has": a, "variant_has": b, "moved_kind": kind}
        return "order", {}
    missing = [x for x in ref_log if x not in log]
    extra = [x for x in log if x not in ref_log]
    return "content", {"missing": missing[:4], "extra": extra[:4], "ref_len": len(ref_log), "variant_len": len(log)}


def run(case):
    cfg = case["cfg"]
    stream = bytes.fromhex(cfg["stream"])
    line_ends = cfg["line_ends"]
    violations, probes = [], {}
    ref_variant = {"flavour": "aserial", "seg": "lines", "cuts": [], "sched": {"policy": "serial"}, "gap": 0.0}
    ref = _execute(cfg["version"], stream, line_ends, ref_variant, {})
    steps = ref["steps"]
    sim_s = ref["sim_seconds"]
    digests = [ref["digest"]]
    incomplete = ref["incomplete"]
    inter = []
    sched_rec = None
    if b"\r\n" in stream:
        pass
    wake = any(b";3;0;22;" in ln or b";3;0;32;" in ln for ln in stream.split(b"\n"))
    if wake:
        probes["wakeup_in_stream"] = 1
    if not incomplete:
        for idx, variant in enumerate(case["ops"]):
            segs = _segments(stream, line_ends, variant["seg"], variant["cuts"])
            pos = 0
            for seg in segs[:-1]:
                pos += len(seg)
                if pos < len(stream) and stream[pos - 1:pos] == b"\r" and stream[pos:pos + 1] == b"\n":
                    probes["split_cr_lf"] = 1
                if pos < len(stream) and (stream[pos] & 0xC0) == 0x80:
                    probes["split_inside_utf8"] = 1
            out = _execute(cfg["version"], stream, line_ends, variant, probes)
            steps += out["steps"]
            sim_s += out["sim_seconds"]
            digests.append(out["digest"])
            if out["inter"]:
                inter.append(out["inter"])
            if out["incomplete"]:
                incomplete = out["incomplete"]
                break
            who = {"variant": idx, "flavour": variant["flavour"], "seg": variant["seg"], "policy": variant["sched"].get("policy")}
            kind = "threaded" if variant["flavour"] in ("serial", "tcp") else "asyncio"
            if out["died"] or out["loop_exc"]:
                violations.append(_vio("variant-crashed", dict(who, died=out["died"], loop=out["loop_exc"][:2]), kind=kind))
                sched_rec = out["sched"]
                break
            if out["state"] != ref["state"]:
                diff = [k for k in set(ref["state"]) | set(out["state"]) if ref["state"].get(k) != out["state"].get(k)]
                violations.append(_vio("state-depends-on-segmentation", dict(who, nodes_differ=sorted(diff, key=str)[:5]), kind=kind, seg=variant["seg"]))
                sched_rec = out["sched"]
                break
            if out["log"] != ref["log"]:
                shape, detail = _shape(ref["log"], out["log"])
                violations.append(_vio("emitted-sequence-depends-on-segmentation", dict(who, shape=shape, **detail), kind=kind, shape=shape,
                                       moved=detail.get("moved_kind")))
                sched_rec = out["sched"]
                break
    nontrivial = bool((probes.get("split_inside_utf8") or probes.get("split_cr_lf")) and probes.get("wakeup_in_stream")
                      and probes.get("multi_line_chunk_sync"))
    digest = hashlib.sha256("".join(digests).encode()).hexdigest()
    return {"violations": violations, "digest": digest, "nontrivial": nontrivial, "key": digest, "probes": probes, "faults": {},
            "steps": steps, "sim_seconds": sim_s, "incomplete": incomplete, "interleaving": inter[0] if inter else None, "sched": sched_rec,
            "states": [], "sample": {"version": cfg["version"], "stream_head": stream[:160].decode("utf-8", "replace"), "stream_len": len(stream),
                                     "variants": [{k: (v if k != "cuts" else v[:8]) for k, v in var.items()} for var in case["ops"]],
                                     "reference_log": (ref.get("log") or [])[:10]}}
