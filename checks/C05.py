"""C05 - every reply is the prescribed one, well-formed and correctly addressed."""
from checks import netcheck, netgen

ID = "C05"
LEVEL = "exploration"
OWN = {"C05"}
RULE = ("same simulated histories as C04 plus requests (req/config/time/id/gateway-ready/unknown node or child) and controller "
        "set-value calls; per processed line the lines written to the simulated device must equal the model's prescription "
        "(time replies checked against the simulated local clock, epoch/UTC offset/clock jumps drawn per run); every written "
        "line is re-decoded and re-validated by the independent tier-A validator and checked for its addressee; non-trivial = "
        ">=5 distinct reply kinds and >=1 silence case; distinct = distinct run digests")
TIERS = {
    "quick": {"runs": 4000, "max_wall": 240, "minimise_s": 25, "chunk": 50},
    "thorough": {"runs": 150000, "max_wall": 3000, "minimise_s": 60, "chunk": 200},
}
FAULT_KINDS = ["clock jump", "raising event callback", "invalid frames interleaved"]
REAL, STUBS, ASSUMPTIONS = netcheck.REAL, netcheck.STUBS, netcheck.ASSUMPTIONS
REQUIRED_PROBES = ["accepted_lines", "controller_sets_sent", "ids_handed_out"]
WEIGHTS = {"req": 14, "config": 5, "time": 6, "idreq": 5, "gwready": 3, "unknown_traffic": 8, "ctl_set": 16, "ctl_setpair": 2, "value": 14,
           "present_child": 12, "heartbeat": 7, "presleep": 7, "clockjump": 2, "metric": 2, "discover_resp": 2, "internal_other": 4, "stream_bad": 0}
FLAVOURS = ["serial", "tcp", "aserial", "atcp", "mqtt", "amqtt"]
REPLY_KINDS = {"req", "config", "time", "id-request", "gateway-ready", "set-unknown", "req-unknown", "child-presentation",
               "discover-response", "battery", "sketch-name", "sketch-version", "heartbeat", "pre-sleep", "stream-unknown"}


def gen(rng, tier, index):
    cfg = netgen.base_cfg(rng, FLAVOURS)
    if rng.random() < 0.1:
        cfg["cb_raise"] = sorted(rng.sample(range(60), 10))
    if cfg["flavour"] in ("mqtt", "amqtt"):
        cfg["in_prefix"] = rng.choice(["", "gw-out"])
        cfg["out_prefix"] = rng.choice(["", "gw-in"])
    ops = netgen.make_ops(rng, cfg["version"], rng.randint(10, 60 if tier == "thorough" else 45), WEIGHTS, nodes=(1, 3), scenario=0.2)
    if cfg["flavour"] in ("serial", "tcp") and rng.random() < 0.25:
        # several lines per chunk and a pre-emptive reader/pump schedule: lines may be framed and
        # queued while the pump is in the middle of a job
        cfg["sched"] = {"policy": "rw", "seed": rng.getrandbits(32), "p": rng.choice([0.01, 0.04, 0.15])}
        cfg["max_steps"] = 1_500_000
        ops = netgen.chunkify(rng, ops, max_lines=6, p_join=0.8)
    return {"cfg": cfg, "ops": ops}


def _nontrivial(probes, run_):
    return len(run_.kinds & REPLY_KINDS) >= 5 and bool({"req-novalue", "set", "internal-9", "internal-2"} & run_.kinds)


def run(case):
    return netcheck.run_net(case, OWN, _nontrivial)
