"""C13 - start-up survives damaged persistence files."""
import hashlib

from checks import diskutil
from sim import kernel

ID = "C13"
LEVEL = "fault_enumeration"
OWN = {"C13"}
RULE = ("per run: format, gateway flavour (threaded / asyncio: start_persistence in an executor thread), a saved state S and an older "
        "state S_bak written by the real save code, then damage applied directly to the files (the on-disk results of torn, short or "
        "lost writes): main in {missing, empty, truncated at k, zero-filled from k} with k drawn over 0..len-1, backup in {absent, "
        "intact, damaged the same ways}. Oracle: start_persistence() returns normally (no exception, no dead thread, no failed task); "
        "loaded state == S_bak when the backup is intact, else empty - never a partial merge; afterwards a changed state saves and "
        "reloads. non-trivial = main truncated/zero-filled at 0<k<len; distinct = distinct (format, flavour, main damage, relative "
        "offset bucket of 32, backup state) tuples")
TIERS = {
    "quick": {"runs": 5000, "max_wall": 240, "minimise_s": 20, "chunk": 100},
    "thorough": {"runs": 300000, "max_wall": 3000, "minimise_s": 60, "chunk": 500},
}
FAULT_KINDS = ["main missing", "main empty", "main truncated at k", "main zero-filled from k", "backup absent/intact/truncated/zero-filled/empty"]
REAL = ["mysensors.persistence (safe_load_sensors, _load_*, save_sensors)", "mysensors.task.start_persistence (sync + asyncio)", "pickle", "json"]
STUBS = ["file system (SimFS)", "threading.Timer / asyncio loop clock (simulated)", "executor threads (kernel controlled)"]
ASSUMPTIONS = ["damage is applied to files produced by the repository's own save code for states reachable by simulated histories"]
REQUIRED_PROBES = ["fallback_to_backup", "started_empty", "main_truncated", "main_zerofilled"]

MAIN = ["missing", "empty", "truncate", "truncate", "truncate", "zerofill", "zerofill"]
BAK = ["absent", "absent", "intact", "intact", "intact", "truncate", "zerofill", "empty"]


def gen(rng, tier, index):
    version = rng.choice(["1.4", "1.5", "2.0", "2.1", "2.2"])
    flavour = rng.choice(["serial", "serial", "aserial", "amqtt", "tcp"])
    sched = None
    if flavour in ("aserial", "amqtt") and rng.random() < 0.6:
        # loop, loading executor thread and whatever else start-up sets going are scheduled at random (not "first come first served")
        sched = {"policy": "rw", "seed": rng.getrandbits(32), "p": rng.choice([0.0, 0.0, 0.02])}
    return {
        "cfg": {"version": version, "fmt": rng.choice(["pickle", "json"]), "flavour": flavour, "sched": sched, "debug_log": rng.random() < 0.2,
                "main": rng.choice(MAIN), "bak": rng.choice(BAK), "k": rng.random(), "kb": rng.random(),
                "relpath": rng.choice([None, None, "mysensors", "some_folder/mysensors", "./data/../ms"])},
        "state": diskutil.state_lines(rng, version, rng.randint(1, 25)),
        "older": diskutil.state_lines(rng, version, rng.randint(1, 10)),
    }


def _vio(cls, detail, **sig):
    sig["class"] = cls
    return {"class": cls, "detail": detail, "signature": sig, "owner": "C13"}


def _damage(data, how, frac):
    if how == "empty":
        return b"", 0
    k = min(len(data) - 1, int(frac * len(data)))
    if how == "truncate":
        return data[:k], k
    if how == "zerofill":
        return data[:k] + b"\0" * (len(data) - k), k
    return data, None


def run(case):
    """(with cfg["debug_log"] the application has switched the library's loggers to DEBUG: what is only computed for a debug
    message is computed in this run)"""
    import logging  # pylint: disable=import-outside-toplevel
    if not case["cfg"].get("debug_log"):
        return _run(case)
    logger = logging.getLogger("mysensors")
    before = (logger.level, logger.propagate, logging.root.manager.disable)
    sink = logging.NullHandler()
    logger.addHandler(sink)
    logger.propagate = False
    logger.setLevel(logging.DEBUG)
    logging.disable(logging.NOTSET)  # (the harness keeps logging switched off otherwise)
    try:
        res = _run(case)
    finally:
        logging.disable(before[2])
        logger.setLevel(before[0])
        logger.propagate = before[1]
        logger.removeHandler(sink)
    res.setdefault("probes", {})["runs_with_debug_logging"] = 1
    return res


def _run(case):
    cfg = case["cfg"]
    flavour = cfg["flavour"]
    dw = diskutil.DiskWorld(cfg["version"], cfg["fmt"], flavour=flavour, relpath=cfg.get("relpath"), sched=cfg.get("sched"),
                            max_steps=1_500_000 if cfg.get("sched") else 400_000)
    violations, probes, faults = [], {}, {}
    incomplete = None
    key = None
    nontrivial = False
    sample = None
    try:
        try:
            fs = dw.fs
            path = dw.abspath
            bak = path + ".bak"
            gw = dw.gateway()
            dw.feed(gw, case["older"])
            status, exc = dw.save(gw)
            assert status == "ok", exc
            s_bak = diskutil.proj(gw)
            bak_bytes = fs.get(path)
            gw2 = dw.gateway()
            dw.feed(gw2, case["state"])
            fs.remove(path)
            status, exc = dw.save(gw2)
            assert status == "ok", exc
            main_bytes = fs.get(path)
            # ---- damage -----------------------------------------------------------------
            k = None
            if cfg["main"] == "missing":
                fs.remove(path)
            else:
                damaged, k = _damage(main_bytes, cfg["main"], cfg["k"])
                fs.put(path, damaged)
            kb = None
            if cfg["bak"] == "intact":
                fs.put(bak, bak_bytes)
            elif cfg["bak"] != "absent":
                damaged, kb = _damage(bak_bytes, cfg["bak"], cfg["kb"])
                fs.put(bak, damaged)
            faults["main_" + cfg["main"]] = 1
            faults["bak_" + cfg["bak"]] = 1
            probes["main_truncated" if cfg["main"] == "truncate" else "main_zerofilled" if cfg["main"] == "zerofill" else "main_" + cfg["main"]] = 1
            nontrivial = cfg["main"] in ("truncate", "zerofill") and k is not None and 0 < k < len(main_bytes)
            bucket = None if k is None else int(32 * k / max(1, len(main_bytes)))
            key = f"{cfg['fmt']}|{'async' if flavour.startswith('a') else 'sync'}|{cfg['main']}|{bucket}|{cfg['bak']}"
            sample = {"cfg": cfg, "main_len": len(main_bytes), "k": k, "bak_len": len(bak_bytes), "kb": kb,
                      "state_nodes": sorted(diskutil.proj(gw2)), "bak_nodes": sorted(s_bak)}
            # ---- start-up --------------------------------------------------------------------
            gw3 = dw.gateway()
            err = dw.load(gw3)
            dw.world.settle()
            got = diskutil.proj(gw3)
            where = {"fmt": cfg["fmt"], "flavour": flavour, "main": cfg["main"], "k": k, "main_len": len(main_bytes), "bak": cfg["bak"], "kb": kb}
            died = list(dw.world.sim.died)
            loop_exc = list(dw.world.loop.exceptions) if dw.world.loop is not None else []
            if err is not None:
                violations.append(_vio("load-raised", dict(where, exc=repr(err)), exc=type(err).__name__, fmt=cfg["fmt"]))
            elif died or loop_exc:
                violations.append(_vio("load-killed-thread", dict(where, died=[d[:2] for d in died], loop=loop_exc)))
            else:
                want = s_bak if cfg["bak"] == "intact" else {}
                if got == want:
                    probes["fallback_to_backup" if cfg["bak"] == "intact" else "started_empty"] = 1
                else:
                    cls = "loaded-partial-or-wrong"
                    violations.append(_vio(cls, dict(where, got_nodes=sorted(got), want_nodes=sorted(want)), bak=cfg["bak"]))
                # probe (not in the statement): a changed state saves and reloads afterwards
                gw3.logic("9;255;0;0;17;2.0")
                want2 = diskutil.proj(gw3)
                status, exc = dw.save(gw3)
                gw4 = dw.gateway()
                err2 = dw.load(gw4)
                if status != "ok" or err2 is not None or diskutil.proj(gw4) != want2:
                    probes["post_recovery_roundtrip_failed"] = 1
                else:
                    probes["post_recovery_roundtrip_ok"] = 1
        except kernel.SimAbort as exc:
            incomplete = str(exc)
        except kernel.Deadlock as exc:
            incomplete = "deadlock " + str(exc)[:100]
    finally:
        sim = dw.world.sim
        digest = sim.digest()
        steps = sim.steps
        dw.close()
    digest = hashlib.sha256((digest + repr(key) + repr(sorted(probes))).encode()).hexdigest()
    return {"violations": violations, "digest": digest, "nontrivial": nontrivial, "key": key, "probes": probes, "faults": faults,
            "steps": steps, "sim_seconds": 0.0, "incomplete": incomplete, "sample": sample, "states": [],
            "extra": {"tuples": [key] if key else []}}


def shrinkers(case):
    for field in ("state", "older"):
        lines = case[field]
        for i in range(len(lines)):
            if len(lines) > 1:
                cand = dict(case)
                cand[field] = lines[:i] + lines[i + 1:]
                yield cand


def coverage_post(cov):
    tuples = cov.pop("tuples", [])
    cov["tuples_covered"] = len(tuples)
    cov["tuples_sample"] = tuples[:25]
