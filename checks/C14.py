"""C14 - a clean stop loses nothing."""
from checks import netcheck, netgen

ID = "C14"
LEVEL = "exploration"
OWN = {"C14"}
RULE = ("seeded histories exercising every handler kind (presentations, values, battery, sketch, heartbeat, id assignment, stream "
        "requests, controller calls) on all versions, both file formats, threaded and asyncio flavours, with simulated time advancing by "
        "drawn amounts so that the 10 s save ticks fall at arbitrary positions (also immediately before the last change, never, or in "
        "an idle period), ended by stop(); then a fresh gateway on the same simulated disk. Oracle: stop() does not raise; projection "
        "before stop == projection after start_persistence(). non-trivial = the last state change happened after the last completed "
        "periodic save; distinct = distinct run digests; evidence lists which handler kinds made the last unsaved change")
TIERS = {
    "quick": {"runs": 3000, "max_wall": 240, "minimise_s": 25, "chunk": 50},
    "thorough": {"runs": 100000, "max_wall": 3000, "minimise_s": 60, "chunk": 200},
}
FAULT_KINDS = ["save tick position relative to the last change", "clean stop/restart", "stop() at the instant a scheduled save starts (pre-emptive schedule)", "persistence directory not writable during one scheduled save", "transient I/O error in one scheduled save", "raising event callback", "no event callback", "line delivered while stop() is in progress",
               "link down and re-dial pending when stop() is called", "the scheduled save that stop() waits for fails (threaded)"]
REAL, STUBS, ASSUMPTIONS = netcheck.REAL, netcheck.STUBS, netcheck.ASSUMPTIONS
REQUIRED_PROBES = ["restarts_with_persistence", "stop_after_unsaved_change", "saves_completed"]
WEIGHTS = {"advance": 14, "restart": 3, "present_node": 8, "present_child": 9, "value": 12, "battery": 6, "sketch": 8, "heartbeat": 6,
           "presleep": 3, "idreq": 8, "adopt": 2, "ctl_set": 3, "ctl_fw": 2, "stream_cfg": 2, "stream_blk": 1, "stream_bad": 0,
           "garbage": 1, "invalid_frame": 1, "unknown_traffic": 2, "req": 2}
FLAVOURS = ["serial", "tcp", "aserial", "atcp", "mqtt", "amqtt"]


def gen(rng, tier, index):
    cfg = netgen.base_cfg(rng, FLAVOURS, persistence=["pickle", "json"])
    if cfg["flavour"] in ("mqtt", "amqtt"):
        cfg["in_prefix"] = rng.choice(["", "gw-out"])
        cfg["out_prefix"] = rng.choice(["", "gw-in"])
    if rng.random() < 0.05:
        # the application brings the link up first and calls start_persistence() a moment later; what arrived in between is the
        # only news of this lifetime (optionally followed by traffic that changes nothing), then stop and restart
        cfg["late_persistence"] = [f"21;255;0;0;17;{rng.choice(['2.0', '1.5'])}", "21;1;0;0;6;early", "21;1;1;0;0;20.5"][: rng.randint(1, 3)]
        ops = []
        if rng.random() < 0.5:
            ops.append(["advance", rng.choice([0.5, 10.3, 21.0])])
        if rng.random() < 0.5:
            ops.append(["line", "21;1;2;0;0;"])  # a value request: answered, changes nothing
        ops.append(["restart"])
        return {"cfg": cfg, "ops": ops}
    ops = netgen.make_ops(rng, cfg["version"], rng.randint(8, 45), WEIGHTS, nodes=(1, 3))
    if rng.random() < 0.3:
        edge = [["line", f"0;255;0;0;18;{rng.choice(['1.5', '2.0', '2.2.0'])}"], ["line", "0;1;0;0;6;gw temp"], ["line", "0;1;1;0;0;21.5"]]
        if rng.random() < 0.4:
            edge += [["line", "255;255;0;0;17;2.1"], ["line", "255;0;0;0;3;x"]]
        pos = rng.randrange(0, len(ops) + 1)
        ops[pos:pos] = edge
    # the run always ends with: (maybe a tick) one last change of a drawn handler kind, then stop
    tail_rng = rng.random()
    if tail_rng < 0.5:
        ops.append(["advance", rng.choice([9.9, 10.0, 10.2, 20.1])])
    ops.extend(netgen.make_ops(rng, cfg["version"], 1, dict(WEIGHTS, advance=0, restart=0, garbage=0, invalid_frame=0), nodes=(1, 1))[-1:])
    if cfg["flavour"] in ("aserial", "atcp", "amqtt") and rng.random() < 0.2:
        cfg["prelude_quick_stop"] = True
    roll = rng.random()
    if roll < 0.15:
        cfg["cb_raise"] = sorted(rng.sample(range(80), 25))  # an application callback that raises now and then
    elif roll < 0.3:
        cfg["no_callback"] = True  # persistence on, no event callback: a documented combination
    if cfg["persistence"] and rng.random() < 0.2:
        ops.append(["readonly_tick"])
    elif cfg["persistence"] and rng.random() < 0.2:
        # one scheduled save hits a transient I/O error; nothing changes afterwards
        ops.append(["fault_tick", rng.choice(["open", "write", "flush", "fsync", "close", "rename", "rename2", "rename2", "remove"]), rng.choice(["EIO", "EACCES", "ENOSPC", "ETIMEDOUT", "NOMEM"])])
    if cfg["flavour"] not in ("mqtt", "amqtt") and rng.random() < 0.15:
        # the last change is IN FLIGHT when a save tick fires: one or two forced switches inside the code that applies it
        # (allocator, presentation, value and attribute handlers, the dirty mark), everything else runs to its next
        # blocking point - a whole save may slip in between two statements of a handler; then nothing else, then stop()
        line = rng.choice(["255;255;3;0;3;"] * 6 + [f"{rng.choice([70, 71])};255;0;0;17;2.0", f"{rng.choice([1, 2, 3])};{rng.choice([50, 51])};0;0;6;in flight",
                           f"{rng.choice([1, 2, 3])};255;3;0;0;{rng.randint(1, 99)}", f"{rng.choice([1, 2, 3])};255;3;0;11;in flight"])
        cfg["window"] = rng.choice([["add_sensor"], ["add_sensor"], ["add_sensor", "_get_next_id", "handle_id_request", "alert", "handle_presentation", "add_child_sensor",
                                                     "handle_battery_level", "handle_sketch_name"]])
        cfg["sched"] = {"policy": "pct", "seed": rng.getrandbits(32), "k": rng.choice([1, 2]), "arm": True,
                        "horizon": 8 if len(cfg["window"]) == 1 else 24, "timer_slack": 0.02}
        cfg["max_steps"] = 1_500_000
        ops.append(["line", f"{rng.choice([5, 6, 7])};255;0;0;17;2.0"])
        ops.append([rng.choice(["line_at_save", "line_at_tick"]), line])
        ops.append(["restart"])
        return {"cfg": cfg, "ops": ops}
    if rng.random() < 0.35:
        # stop() racing with a scheduled save that has something to write
        cfg["sched"] = {"policy": "rw", "seed": rng.getrandbits(32), "p": rng.choice([0.02, 0.08, 0.2])}
        cfg["max_steps"] = 1_500_000
        if cfg["flavour"] not in ("mqtt", "amqtt") and rng.random() < 0.4:
            # an earlier scheduled save overlaps the handling of lines that GROW what it is iterating over (new
            # nodes, children, value types): whatever that does to that save, the stop() later on loses nothing
            grow = [f"{rng.choice([60, 61, 62])};255;0;0;17;2.0", f"{rng.choice([1, 2, 3])};{rng.choice([40, 41])};0;0;6;late child",
                    f"{rng.choice([1, 2, 3])};1;1;0;{rng.choice([24, 25, 26, 27])};grown"]
            rng.shuffle(grow)
            for text in grow[: rng.randint(1, 3)]:
                ops.append(["line", f"{rng.choice([1, 2, 3])};255;3;0;0;{rng.randint(1, 99)}"])
                ops.append(["line_at_save", text])
            if cfg["version"] in ("2.0", "2.1", "2.2") and rng.random() < 0.6:
                # ... also by a handler that does not announce anything: the wake-up of a smart-sleep node that has
                # presented one more child since its last wake-up grows the node's desired-state table
                wake = "90;255;3;0;32;500" if cfg["version"] == "2.2" else "90;255;3;0;22;9"
                ops += [["line", f"90;255;0;0;17;{cfg['version']}"], ["line", "90;1;0;0;6;a"], ["line", "90;2;0;0;6;b"], ["line", wake],
                        ["line", "90;3;0;0;6;one more"], ["line_at_save", wake]]
            ops.append(["advance", rng.choice([0.5, 3.0, 9.5, 10.5])])
        if cfg["flavour"] not in ("mqtt", "amqtt") and rng.random() < 0.35:
            # ... while a line arrives that is handled during that save
            ops.append(["stop_at_tick", {"line": f"{rng.choice([1, 2, 3])};255;3;0;11;arrived during the last save"}])
            if rng.random() < 0.5:
                cfg["slow_fsync"] = rng.choice([0.08, 0.2, 0.5])  # the save sits in fsync that long (slow medium)
        elif cfg["flavour"] in ("serial", "tcp", "mqtt") and rng.random() < 0.7:
            # ... and that scheduled save fails with a transient error while stop() is waiting for it
            ops.append(["stop_at_tick", {"fault": [rng.choice(["open", "write", "fsync", "close", "rename", "rename2", "remove"]),
                                                   rng.choice(["EIO", "EACCES", "ENOSPC", "ETIMEDOUT"])]}])
        else:
            ops.append(["stop_at_tick"])
    elif rng.random() < 0.25:
        # the network delivers one more line at the moment the final save has been written
        late = netgen.make_ops(rng, cfg["version"], 1, dict(WEIGHTS, advance=0, restart=0, garbage=0, invalid_frame=0, ctl_set=0, ctl_fw=0, adopt=0), nodes=(1, 1))[-1]
        ops.append(["restart", {"late_line": late[1] if late[0] == "line" else "1;255;3;0;11;late"}])
    elif rng.random() < 0.1:
        # the application stops the gateway from inside the event callback of the last change (threaded flavours: on the
        # thread that is handling that message)
        ops.append(["advance", rng.choice([10.2, 10.5])])
        ops.append(["stop_from_callback", rng.choice(["{n};255;3;0;0;" + str(rng.randint(1, 99)), "{n};255;3;0;11;bye",
                                                      f"{rng.choice([82, 83])};255;0;0;17;2.0"])])
    elif rng.random() < 0.18:
        # the last change is still inside the application's (slow) event callback when stop() is called
        ops.append(["advance", rng.choice([10.2, 10.5])])
        ops.append(["stop_in_callback", rng.choice(["{n};255;3;0;0;" + str(rng.randint(1, 99)), "{n};255;3;0;11;slow",
                                                    f"{rng.choice([80, 81])};255;0;0;17;2.0"])])
    else:
        if cfg["flavour"] not in ("mqtt", "amqtt") and rng.random() < 0.3:
            # the link is gone and the gateway is busy re-dialling (in vain) when the application stops it
            ops.append(["linkdown"])
            if rng.random() < 0.5:
                ops.append(["advance", rng.choice([0.5, 5.0, 10.5, 25.0])])
        ops.append(["restart"])
    return {"cfg": cfg, "ops": ops}


def _nontrivial(probes, run_):
    return bool(probes.get("stop_after_unsaved_change"))


def run(case):
    return netcheck.run_net(case, OWN, _nontrivial)
