"""C18 - documented configuration is accepted and honoured (configuration swarm)."""
import hashlib

from model import tables
from sim import broker as simbroker
from sim import fs as simfs
from sim import kernel
from sim import world as W

ID = "C18"
LEVEL = "exploration"
RULE = ("configuration swarm: gateway class (all six) x a drawn subset of its documented keyword options (event_callback, persistence, "
        "persistence_file incl. nested directory, protocol_version, port/baud/host, timeout, reconnect_timeout, in_prefix, out_prefix, "
        "retain) with drawn values, plus the README's constructor examples; the simulated world is the instrument that shows each "
        "option taking effect (arguments seen by the fake serial/socket factory, reconnect spacing and TCP probe spacing on the "
        "simulated clock, file written on SimFS, callback fired, topic prefixes and retain flag at the simulated broker). Version floor: "
        "a gateway built with version string s must accept/reject a panel of version-specific frames exactly as the independent floor "
        "rule says (major 0..3 x minor 0..12 x patch absent/0..3 plus specials), and the same for the version a node presents (observed "
        "through which desired values are accepted for a sleeping node). non-trivial = >=2 non-default options and a version string "
        "with a patch level or outside the five canonical strings; distinct = distinct (class, option subset, version string) tuples")
TIERS = {
    "quick": {"runs": 2500, "max_wall": 240, "minimise_s": 20, "chunk": 50},
    "thorough": {"runs": 60000, "max_wall": 3000, "minimise_s": 60, "chunk": 200},
}
FAULT_KINDS = ["connect failure before success (reconnect spacing)", "connect hang (asyncio wait_for timeout)", "peer answers version probes late (0.04-0.3 s, within the reconnect timeout)"]
REAL = ["all six gateway classes through their public constructors", "mysensors.const.get_const / validation.safe_is_version", "transports, tasks, persistence"]
STUBS = ["serial/socket factories, asyncio connection factories, MQTT broker, disk, clock, thread scheduling"]
ASSUMPTIONS = ["this is a statement over configurations; simulation only provides the instrument that observes options taking effect (DESIGN.md C18)",
               "a whole number N (2, '3') is read as the version N.0"]
REQUIRED_PROBES = ["panel_frames_checked", "reconnect_spacing_checked", "node_version_checked", "persistence_effect_checked", "presentation_request_checked"]

PANEL = [  # (frame after node 1 / child 1 are presented, description)
    "1;1;1;0;40;ff00aa", "1;1;1;0;47;x", "1;255;3;0;22;5", "1;255;3;0;32;5", "1;255;3;0;7;", "1;1;1;0;22;1", "1;1;1;0;22;Min",
    "1;255;3;0;18;", "1;1;1;0;39;3", "1;1;1;0;46;Auto", "1;1;1;0;56;0.5", "1;255;3;0;15;x", "1;255;3;0;29;x",
]
README_EXAMPLES = [
    ("serial", {"port": "/dev/ttyACM0", "baud": 115200, "timeout": 1.0, "reconnect_timeout": 10.0, "persistence": True,
                "persistence_file": "some_folder/mysensors.pickle", "protocol_version": "2.2"}),
    ("tcp", {"host": "127.0.0.1", "port": 5003, "timeout": 1.0, "reconnect_timeout": 10.0, "persistence": True,
             "persistence_file": "some_folder/mysensors.pickle", "protocol_version": "2.2"}),
    ("mqtt", {"in_prefix": "mygateway1-out", "out_prefix": "mygateway1-in", "retain": True, "persistence": True,
              "persistence_file": "some_folder/mysensors.pickle", "protocol_version": "2.2"}),
]


def version_strings(rng):
    roll = rng.random()
    if roll < 0.15:
        return rng.choice(["1.4", "1.5", "2.0", "2.1", "2.2"])
    if roll < 0.27:
        return rng.choice(["abc", "", None, 2.0, 2, "2", 3, "3", 1, "1", 0, 2.2, 1.5, "1.4.0", "2.2.0", "2.0.5", "2.3", "2.10", "1.10", "10.0", "x.y", "two"])
    major, minor = rng.randint(0, 3), rng.randint(0, 12)
    patch = rng.choice([None, None, 0, 1, 2, 3])
    return f"{major}.{minor}" if patch is None else f"{major}.{minor}.{patch}"


def gen(rng, tier, index):
    if rng.random() < 0.06:
        flavour, opts = rng.choice(README_EXAMPLES)
        opts = dict(opts)
        return {"cfg": {"flavour": flavour, "opts": opts, "readme": True, "node_version": "2.2.0", "connect_plan": ["ok"]}}
    flavour = rng.choice(W.FLAVOURS)
    opts = {}
    if rng.random() < 0.8:
        opts["protocol_version"] = version_strings(rng)
    if rng.random() < 0.4:
        opts["persistence"] = True
        if rng.random() < 0.7:
            opts["persistence_file"] = rng.choice(["ms.json", "ms.pickle", "data/sub/net.json", "/var/lib/ms/state.pickle", "some_folder/mysensors.pickle",
                                                    # dots elsewhere than in front of the extension (hidden / versioned directories, dotted names)
                                                    "/home/pi/.homeassistant/mysensors.pickle", "conf.d/nodes.json", "net.v2/my.sensors.json"])
    if flavour in ("serial", "aserial"):
        if rng.random() < 0.5:
            opts["port"] = rng.choice(["/dev/ttyUSB0", "/dev/ttyACM1", "COM3"])
        if rng.random() < 0.5:
            opts["baud"] = rng.choice([9600, 38400, 57600, 115200])
    if flavour in ("tcp", "atcp"):
        if rng.random() < 0.5:
            opts["host"] = rng.choice(["192.168.1.18", "gw.local", "::1"])
        if rng.random() < 0.5:
            opts["port"] = rng.choice([5003, 5004, 9999])
    if flavour in ("serial", "aserial", "tcp", "atcp"):
        if rng.random() < 0.5:
            # (None: reads block until data arrives - a documented pyserial value, and falsy)
            opts["timeout"] = rng.choice([0.5, 1.0, 2.5, None] if flavour == "serial" else [0.5, 1.0, 2.5])
        if rng.random() < 0.6:
            opts["reconnect_timeout"] = rng.choice([0.5, 1.0, 3.0, 10.0, 30.0])
    if flavour in ("mqtt", "amqtt"):
        if rng.random() < 0.6:
            opts["in_prefix"] = rng.choice(["mygateway1-out", "a/b", "x"])
        if rng.random() < 0.6:
            opts["out_prefix"] = rng.choice(["mygateway1-in", "c/d", "y"])
        if rng.random() < 0.5:
            opts["retain"] = rng.choice([True, False])
    if rng.random() < 0.35:
        opts["event_callback"] = None  # the documented default: no callback
    latency = rng.choice([0.0, 0.0, 0.04, 0.12, 0.15, 0.19, 0.3]) if flavour in ("tcp", "atcp") else 0.0
    return {"cfg": {"flavour": flavour, "opts": opts, "readme": False, "node_version": version_strings(rng), "node_sub": rng.choice([17, 17, 18]),
                    "probe_latency": latency, "bystander": rng.random() < 0.3,
                    "connect_plan": rng.choice([["ok"], ["fail", "ok"], ["fail", "fail", "ok"], ["timeout", "ok"]]
                                               + ([["unreach", "ok"], ["unreach", "fail", "ok"]] if flavour in ("tcp", "atcp") else []))}}


def _vio(cls, detail, **sig):
    sig["class"] = cls
    return {"class": cls, "detail": detail, "signature": sig, "owner": "C18"}


def _floor_of(value):
    if isinstance(value, bool):
        return "1.4"
    if isinstance(value, int) or (isinstance(value, str) and value.isascii() and value.isdigit()):
        # a whole number N is the version N.0 ("numeric comparison"; the quantifier includes numbers)
        return tables.version_floor(f"{int(value)}.0")
    if isinstance(value, float):
        return tables.version_floor(str(value))
    if isinstance(value, str):
        return tables.version_floor(value)
    return "1.4"


def run(case):
    cfg = case["cfg"]
    flavour = cfg["flavour"]
    opts = dict(cfg["opts"])
    violations, probes = [], {}
    incomplete = None
    fs = simfs.SimFS()
    pfile = opts.get("persistence_file", "mysensors.pickle")
    fs.mkdir(simfs.posixpath.dirname(fs.norm(pfile)))
    broker = None
    if W.is_mqtt(flavour):
        broker = simbroker.SimBroker(opts.get("in_prefix", ""), opts.get("out_prefix", ""))
    world = W.World(flavour, opts, fs=fs, broker=broker, max_steps=300_000)
    sim = world.sim
    gw_version = opts.get("protocol_version", "1.4")
    key = f"{flavour}|{','.join(sorted(opts))}|{gw_version!r}"
    try:
        try:
            try:
                gateway = world.build()
            except Exception as exc:  # pylint: disable=broad-except
                violations.append(_vio("constructor-raised", {"flavour": flavour, "opts": {k: repr(v) for k, v in opts.items()}, "exc": repr(exc)},
                                       exc=type(exc).__name__, keys=",".join(sorted(k for k in opts if k in str(exc)))))
                raise _Done()
            bystander_calls = []
            if cfg.get("bystander"):
                # the application has a second gateway object of the same class with options of its own (constructed after the
                # first, never started): the options of the one under test must keep taking effect, nothing of its traffic may
                # show up at the other's callbacks
                other = dict(opts)
                other.pop("persistence", None)
                other.pop("persistence_file", None)
                other["event_callback"] = lambda msg: bystander_calls.append(("event", msg.node_id))
                if "reconnect_timeout" in other or flavour in ("tcp", "atcp"):
                    other["reconnect_timeout"] = 77.0
                try:
                    if W.is_mqtt(flavour):
                        other["in_prefix"], other["out_prefix"] = "bystander-out", "bystander-in"
                        import mysensors.gateway_mqtt as _gm  # pylint: disable=import-outside-toplevel
                        cls = _gm.MQTTGateway if flavour == "mqtt" else _gm.AsyncMQTTGateway
                        bystander = cls(lambda *a: bystander_calls.append(("pub",) + a[:1]), lambda *a: bystander_calls.append(("sub",) + a[:1]), **other)
                    else:
                        bystander = W._construct(flavour, other, None)  # pylint: disable=protected-access
                    probes["second_gateway_object_alive"] = 1
                    _ = bystander
                except Exception as exc:  # pylint: disable=broad-except
                    violations.append(_vio("constructor-raised", {"flavour": flavour, "note": "second gateway object", "exc": repr(exc)}, exc=type(exc).__name__, keys="second"))
                    raise _Done()
            rt = opts.get("reconnect_timeout", 10.0)
            world.device.connect_plan = list(cfg["connect_plan"])
            if cfg.get("probe_latency"):
                # the peer answers every version probe, but only after this long (well within the reconnect timeout)
                world.device.version_latency = cfg["probe_latency"]
            try:
                world.start(persistence=bool(opts.get("persistence")))
            except (kernel.SimAbort, kernel.Deadlock):
                raise
            except Exception as exc:  # pylint: disable=broad-except
                # host / port / reconnect_timeout take effect as "keep dialling that address at that interval": a failed
                # dial - whatever the error - must not surface from start()
                violations.append(_vio("option-not-honoured", {"start_raised": repr(exc), "plan": cfg["connect_plan"], "rt": rt},
                                       option="reconnect_timeout(retry)"))
                raise _Done()
            world.advance(rt * 2.6 + 1.0 + 3.5 * sum(1 for p in cfg["connect_plan"] if p == "unreach"))
            attempts = world.device.attempts
            # ---- connection options ---------------------------------------------------------
            if flavour == "serial" and attempts:
                want = ("serial", opts.get("port", "/dev/ttyFAKE"), opts.get("baud", 115200), opts.get("timeout", 1.0))
                if attempts[0][2] != want:
                    violations.append(_vio("option-not-honoured", {"want": want, "got": attempts[0][2]}, option="port/baud/timeout"))
            if flavour == "aserial" and attempts:
                want = ("aserial", opts.get("port", "/dev/ttyFAKE"), opts.get("baud", 115200))
                if tuple(attempts[0][2][:3]) != want:
                    violations.append(_vio("option-not-honoured", {"want": want, "got": attempts[0][2]}, option="port/baud"))
            if flavour == "tcp" and attempts:
                want = ("tcp", (opts.get("host", "10.0.0.9"), opts.get("port", 5003)), rt)
                if attempts[0][2] != want:
                    violations.append(_vio("option-not-honoured", {"want": want, "got": attempts[0][2]}, option="host/port/reconnect_timeout"))
            if flavour == "atcp" and attempts:
                want = (opts.get("host", "10.0.0.9"), opts.get("port", 5003))
                if attempts[0][2][1] != want:
                    violations.append(_vio("option-not-honoured", {"want": want, "got": attempts[0][2]}, option="host/port"))
            if flavour in ("serial", "aserial", "tcp", "atcp"):
                transport = gateway.tasks.transport
                if transport.reconnect_timeout != rt or transport.timeout != opts.get("timeout", 1.0):
                    violations.append(_vio("option-not-honoured", {"timeout": transport.timeout, "reconnect_timeout": transport.reconnect_timeout,
                                                                   "opts": opts}, option="timeout/reconnect_timeout"))
                # reconnect spacing after failed attempts
                plan = cfg["connect_plan"]
                if len(plan) > 1:
                    times = [a[0] for a in attempts[:len(plan)]]
                    if len(times) < len(plan):
                        violations.append(_vio("option-not-honoured", {"attempt_times": times, "plan": plan, "rt": rt}, option="reconnect_timeout(retry)"))
                    for i in range(1, len(times)):
                        gap = times[i] - times[i - 1]
                        want_gap = rt if plan[i - 1] in ("fail", "unreach") or flavour in ("serial", "aserial") else 2 * rt
                        if plan[i - 1] == "unreach":
                            # the simulated stack needs a moment to report "no route to host" (1 s on the asyncio side,
                            # min(3 s, socket timeout) on the threaded side); the retry interval counts from there
                            arg = attempts[i - 1][2]
                            # (the asyncio dial is itself bounded by reconnect_timeout)
                            want_gap += min(1.0, rt) if flavour == "atcp" else min(3.0, (arg[2] if len(arg) > 2 and arg[2] else 3.0))
                        if not want_gap - 0.06 <= gap <= want_gap * 1.05 + 0.06:
                            violations.append(_vio("option-not-honoured", {"attempt_times": times, "plan": plan, "rt": rt, "gap": gap},
                                                   option="reconnect_timeout(spacing)"))
                            break
                    probes["reconnect_spacing_checked"] = 1
                if flavour in ("tcp", "atcp") and world.device.probes:
                    ptimes = [p[0] for p in world.device.probes]
                    gaps = [b - a for a, b in zip(ptimes, ptimes[1:])]
                    if any(g < rt - 1e-6 or g > rt + 0.25 for g in gaps):
                        violations.append(_vio("option-not-honoured", {"probe_times": ptimes, "rt": rt}, option="reconnect_timeout(probe)"))
                    probes["probe_spacing_checked"] = 1
            # ---- callback, persistence, prefixes ------------------------------------------------
            # (a repeater node presents itself with sub-type 18; it carries the library version like 17 does)
            _send(world, broker, f"1;255;0;0;{cfg.get('node_sub', 17)};" + str(cfg["node_version"] if _plausible(cfg["node_version"]) else "2.0"))
            _send(world, broker, "1;1;0;0;3;light")
            no_cb = "event_callback" in opts and opts["event_callback"] is None
            if not world.callbacks and not no_cb:
                violations.append(_vio("option-not-honoured", {"note": "event callback never fired"}, option="event_callback"))
            if opts.get("persistence"):
                # persistence must take effect in every option subset: let a periodic save pass, then change a
                # known node only, stop, and load the file into a fresh gateway
                world.advance(10.5)
                _send(world, broker, "1;1;1;0;2;1")
                _send(world, broker, "1;255;3;0;11;sketch-" + ("nocb" if no_cb else "cb"))
            if broker is not None:
                _send(world, broker, "1;255;3;0;6;0")
                pre_in, pre_out = opts.get("in_prefix", ""), opts.get("out_prefix", "")
                bad_sub = [s[0] for s in broker.subs if not s[0].startswith(pre_in + "/")]
                bad_pub = [p[1] for p in broker.published if not p[1].startswith(pre_out + "/")]
                bad_ret = []
                if bad_sub or bad_pub or bad_ret or not broker.published:
                    violations.append(_vio("option-not-honoured", {"bad_sub": bad_sub[:3], "bad_pub": bad_pub[:3], "bad_retain": len(bad_ret),
                                                                   "published": len(broker.published)}, option="prefix/retain"))
            # ---- version floor of the gateway -----------------------------------------------------
            floor = _floor_of(gw_version)
            check_floor = True
            if check_floor:
                for frame in PANEL:
                    fields = tables.parse_canonical(frame)
                    want = bool(tables.valid_frame(floor, *fields))
                    got = _frame_accepted(world, broker, gateway, frame, fields)
                    probes["panel_frames_checked"] = probes.get("panel_frames_checked", 0) + 1
                    if got != want:
                        violations.append(_vio("version-floor-wrong", {"version_string": repr(gw_version), "floor": floor, "frame": frame,
                                                                       "accepted": got, "want": want}, who="gateway", version=repr(gw_version)))
                        break
            # ---- >= 2.0 behaviour follows the same floor: a message for an unknown node asks for a presentation
            if check_floor and not violations:
                mark = len(broker.published) if broker is not None else len(world.device.writes)
                _send_force(world, broker, "199;1;1;0;0;5")
                if broker is not None:
                    asked = any(p[1].endswith("/199/255/3/0/19") for p in broker.published[mark:])
                else:
                    asked = any(w[4] == b"199;255;3;0;19;\n" for w in world.device.writes[mark:])
                want_ask = floor in ("2.0", "2.1", "2.2")
                probes["presentation_request_checked"] = 1
                if asked != want_ask:
                    violations.append(_vio("version-floor-wrong", {"version_string": repr(gw_version), "floor": floor, "presentation_request_sent": asked,
                                                                   "want": want_ask}, who="gateway-behaviour", version=repr(gw_version)))
            # ---- version a node presents ---------------------------------------------------------------
            nver = cfg["node_version"]
            if check_floor and floor in ("2.0", "2.1", "2.2") and isinstance(nver, str) and _plausible(nver) and not violations:
                nfloor = tables.version_floor(nver)
                wake = "1;255;3;0;32;5" if floor == "2.2" else "1;255;3;0;22;5"
                _send(world, broker, wake)
                sensor = gateway.sensors.get(1)
                if sensor is not None and sensor.new_state:
                    for sub, value in ((47, "x"), (40, "ff00aa"), (2, "1")):
                        want = bool(tables.valid_frame(nfloor, 1, 1, 1, 0, sub, value)) and bool(tables.valid_frame(floor, 1, 1, 1, 0, sub, value))
                        try:
                            world.call("set_child_value", 1, 1, sub, value)
                            got = True
                        except Exception:  # pylint: disable=broad-except
                            got = False
                        probes["node_version_checked"] = probes.get("node_version_checked", 0) + 1
                        if got != want:
                            violations.append(_vio("version-floor-wrong", {"node_version": nver, "node_floor": nfloor, "gateway_floor": floor,
                                                                           "sub": sub, "value": value, "accepted": got, "want": want},
                                                   who="node", version=repr(nver)))
                            break
            # ---- retain on every publication (also the ones without payload), link kept while the peer answers
            if broker is not None:
                bad_ret = [p[1:5] for p in broker.published if p[4] != opts.get("retain", True)]
                if bad_ret:
                    violations.append(_vio("option-not-honoured", {"retain_configured": opts.get("retain", True), "published": bad_ret[:4]}, option="retain"))
            if flavour in ("tcp", "atcp") and not violations:
                dropped = [c for c in world.device.conns if c.closed_at is not None]
                if dropped:
                    violations.append(_vio("option-not-honoured", {"note": "link dropped although every version probe was answered",
                                                                   "closed_at": [round(c.closed_at, 3) for c in dropped], "rt": rt,
                                                                   "attempts": [(round(a[0], 3), a[1]) for a in world.device.attempts][:8]},
                                           option="reconnect_timeout(watchdog)"))
            if bystander_calls and not violations:
                violations.append(_vio("option-not-honoured", {"note": "traffic of the gateway under test reached the callbacks of another gateway object",
                                                               "calls": [repr(c)[:80] for c in bystander_calls[:5]]}, option="second gateway object"))
            # ---- persistence file ---------------------------------------------------------------------
            try:
                world.stop()
            except (kernel.SimAbort, kernel.Deadlock, kernel.SimKilled):
                raise
            except Exception as exc:  # pylint: disable=broad-except
                # the accepted configuration makes the documented shutdown fail
                violations.append(_vio("option-not-honoured", {"note": "stop() raised with this (accepted) configuration", "exc": repr(exc)[:300],
                                                               "persistence_file": opts.get("persistence_file")},
                                       option="stop() raised", exc=type(exc).__name__))
                raise _Done()
            world.settle()
            if opts.get("persistence"):
                path = fs.norm(pfile)
                others = [p for p in fs.files if p != path]
                if fs.get(path) is None or others:
                    violations.append(_vio("option-not-honoured", {"want_file": path, "files": sorted(fs.files)}, option="persistence_file"))
                else:
                    held = W.projection(gateway.sensors)
                    fresh = world.build()
                    fresh.tasks.persistence.safe_load_sensors()
                    if W.projection(fresh.sensors) != held:
                        violations.append(_vio("option-not-honoured", {"note": "state held at stop() is not what the persistence file restores",
                                                                       "callback": "none" if no_cb else "given"},
                                               option="persistence", callback="none" if no_cb else "given"))
                    elif not violations:
                        # ... and through the documented API of this gateway class: restored when start_persistence() returns
                        if broker is not None:
                            del broker.subs[:]  # a new client session: what the stopped gateway had subscribed is gone
                        restarted = world.build()
                        world.device.connect_plan = []
                        try:
                            world.start(persistence=True)
                            restored = world.after_start_persistence
                            if broker is not None and restored == held and 1 in held and 1 in held[1].get("children", {}):
                                # the restored child is reachable under the configured prefix: a report for it arrives
                                cb0 = len(world.callbacks)
                                _send(world, broker, "1;1;1;0;2;0")
                                got_val = restarted.sensors[1].children[1].values.get(2) if 1 in restarted.sensors and 1 in restarted.sensors[1].children else None
                                if got_val != "0" or (len(world.callbacks) == cb0 and not no_cb):
                                    violations.append(_vio("option-not-honoured", {"note": "a report for a child restored from the persistence file does not reach the restarted gateway",
                                                                                   "in_prefix": opts.get("in_prefix", ""), "subscriptions": [s[0] for s in broker.subs][:8]},
                                                           option="in_prefix+persistence(restored child)"))
                                else:
                                    probes["restored_child_reachable_over_mqtt"] = 1
                                    _send(world, broker, "1;1;1;0;2;1")  # back to what it was
                            world.stop()
                            world.settle()
                        except (kernel.SimAbort, kernel.Deadlock):
                            raise
                        except Exception as exc:  # pylint: disable=broad-except
                            restored = {"start/stop raised": repr(exc)}
                        if restored != held:
                            violations.append(_vio("option-not-honoured", {"note": "start_persistence() returned without the saved state in place",
                                                                           "restored_nodes": sorted(restored, key=repr)[:6], "held_nodes": sorted(held, key=repr)[:6]},
                                                   option="persistence(start_persistence)"))
                        else:
                            probes["restore_through_start_persistence_checked"] = 1
                    probes["persistence_effect_checked"] = 1
            elif fs.files:
                violations.append(_vio("option-not-honoured", {"note": "file written without persistence", "files": sorted(fs.files)},
                                       option="persistence"))
            for role, exc, trace in sim.died:
                violations.append(_vio("thread-died", {"role": role, "exc": exc, "trace": trace[-800:]}, role=role, exc=exc.split("(")[0]))
        except _Done:
            pass
        except kernel.SimAbort as exc:
            incomplete = str(exc)
        except kernel.Deadlock as exc:
            incomplete = "deadlock: " + str(exc)[:200]
    finally:
        digest = sim.digest()
        steps = sim.steps
        now = sim.now
        world.close()
    nondefault = len([k for k in opts if k != "protocol_version"])
    odd_version = isinstance(gw_version, str) and gw_version not in tables.VERSIONS
    digest = hashlib.sha256((digest + key).encode()).hexdigest()
    return {"violations": violations, "digest": digest, "nontrivial": bool(nondefault >= 2 and odd_version), "key": key, "probes": probes,
            "faults": {"connect_" + "-".join(cfg["connect_plan"]): 1}, "steps": steps, "sim_seconds": now, "incomplete": incomplete,
            "states": [], "sample": {"cfg": {"flavour": flavour, "opts": {k: repr(v) for k, v in opts.items()},
                                              "node_version": repr(cfg["node_version"]), "connect_plan": cfg["connect_plan"]}},
            "extra": {"version_strings": [repr(gw_version)]}}


class _Done(Exception):
    pass


def _plausible(text):
    return isinstance(text, str) and tables.version_floor(text) != "1.4" or text in ("1.4", "1.5")


def _send(world, broker, line):
    if broker is not None:
        parts = line.split(";", 5)
        topic = broker.in_prefix + "/" + "/".join(parts[:5])
        broker.deliver(topic, parts[5], int(parts[3]))
        world.settle()
    else:
        world.feed(line + "\n")


def _frame_accepted(world, broker, gateway, frame, fields):
    """Did the gateway accept the frame?  Observed through its effect."""
    node, child, cmd, _ack, sub, payload = fields
    before_cb = len(world.callbacks)
    sensor = gateway.sensors.get(node)
    if cmd == 1:
        if sensor is None or child not in sensor.children:
            return False
        sensor.children[child].values.pop(sub, None)
        _send_force(world, broker, frame)
        return sensor.children[child].values.get(sub) == payload
    # internal frames: accepted ones reach logic() and return normally; rejected ones are
    # logged and dropped.  Observe through the logic log kept by the world.
    del world.logic_log[:]
    _send_force(world, broker, frame)
    _ = before_cb
    from mysensors.message import Message  # pylint: disable=import-outside-toplevel
    import voluptuous as vol  # pylint: disable=import-outside-toplevel
    try:
        Message(frame).validate(gateway.protocol_version)
        return True
    except (ValueError, vol.Invalid):
        return False


def _send_force(world, broker, line):
    if broker is not None:
        parts = line.split(";", 5)
        topic = broker.in_prefix + "/" + "/".join(parts[:5])
        broker.deliver(topic, parts[5], int(parts[3]), force=True)
        world.settle()
    else:
        world.feed(line + "\n")


def coverage_post(cov):
    vs = cov.get("version_strings") or []
    cov["distinct_version_strings"] = len(vs)
    cov["version_strings"] = vs[:40]
