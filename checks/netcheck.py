"""Shared glue for the property modules built on the W-net harness."""
from checks import netsim

REAL = ["mysensors/* (all modules)", "serial.threaded", "voluptuous", "awesomeversion", "crcmod", "intelhex", "pickle/json"]
STUBS = ["OS thread scheduling (kernel baton)", "clock", "serial port / socket / asyncio transports", "MQTT broker", "disk (SimFS)"]
ASSUMPTIONS = [
    "tier-B classification of garbage lines uses the repo's own decoder/validator (consequences only, never acceptance)",
    "asyncio selector/serial transports are stubs following the documented callback contract",
    "one inbound line per step and the world settles between steps, so every write is attributable to one line",
]


def run_net(case, own, nontrivial, key=None, sample_ops=14):
    res = netsim.run_case(case, own)
    run_ = res.pop("run")
    probes = res["probes"]
    res["nontrivial"] = bool(nontrivial(probes, run_))
    res["key"] = key(res, run_) if key else res["digest"]
    res["sample"] = {"cfg": {k: v for k, v in case["cfg"].items() if k != "sched"}, "n_ops": len(case["ops"]),
                     "ops_head": case["ops"][:sample_ops], "trace_tail": res.pop("trace")[-8:]}
    res["extra"] = {"handler_kinds": res.pop("kinds"), "last_change_before_stop_kinds": res.pop("last_kinds", [])}
    return res
