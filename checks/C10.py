"""C10 - OTA sessions are gated, restartable and terminate."""
from checks import netcheck, netgen

ID = "C10"
LEVEL = "exploration"
OWN = {"C10"}
RULE = ("seeded histories adversarial to the OTA session automaton over 1-4 nodes: update calls (single id, list, unknown id, "
        "missing firmware, non-integer type), config and block requests (well-formed, truncated to each length, odd, non-hex, "
        "other type/version, index >= B), set messages, node presentations; oracle = reference automaton idle->requested->offered->"
        "fetching with restart by update call and reboot flag until presentation; malformed requests: no reply, session stores "
        "unchanged; non-trivial = a session reached fetching, a second update call restarted one, and a malformed request hit a "
        "live session; distinct = distinct run digests")
TIERS = {
    "quick": {"runs": 4000, "max_wall": 240, "minimise_s": 25, "chunk": 50},
    "thorough": {"runs": 150000, "max_wall": 3000, "minimise_s": 60, "chunk": 200},
}
FAULT_KINDS = ["malformed stream request", "request for other type/version", "out-of-range block index", "duplicate request"]
REAL, STUBS, ASSUMPTIONS = netcheck.REAL, netcheck.STUBS, netcheck.ASSUMPTIONS
REQUIRED_PROBES = ["ota_config_responses", "ota_block_responses", "ota_malformed_requests", "ota_sessions_scheduled"]
WEIGHTS = {"ctl_fw": 14, "stream_cfg": 18, "stream_blk": 22, "stream_bad": 10, "stream_other": 3, "value": 8, "present_node": 8,
           "present_child": 6, "req": 2, "heartbeat": 2, "presleep": 2, "ctl_set": 2, "garbage": 1, "invalid_frame": 1,
           "unknown_traffic": 3, "idreq": 1, "internal_other": 1}
FLAVOURS = ["serial", "tcp", "aserial", "atcp", "mqtt", "amqtt"]


def gen(rng, tier, index):
    cfg = netgen.base_cfg(rng, FLAVOURS)
    if cfg["flavour"] in ("mqtt", "amqtt"):
        cfg["in_prefix"] = rng.choice(["", "gw-out"])
        cfg["out_prefix"] = rng.choice(["", "gw-in"])
    cfg["hex_record_len"] = rng.choice([1, 7, 16, 32])
    cfg["hex_ela"] = rng.random() < 0.3
    ops = netgen.make_ops(rng, cfg["version"], rng.randint(15, 60 if tier == "thorough" else 45), WEIGHTS, nodes=(1, 4))
    if cfg["flavour"] in ("serial", "tcp") and rng.random() < 0.25:
        # an update call from a second thread while the node's config request is being processed
        cfg["sched"] = {"policy": "rw", "seed": rng.getrandbits(32), "p": rng.choice([0.02, 0.08, 0.2])}
        cfg["max_steps"] = 1_500_000
        ops = netgen.add_races(rng, cfg["version"], ops, "fw")
    return {"cfg": cfg, "ops": ops}


def _nontrivial(probes, run_):
    return bool(probes.get("ota_block_responses") and probes.get("ota_sessions_scheduled", 0) >= 2
                and probes.get("ota_malformed_requests"))


def run(case):
    return netcheck.run_net(case, OWN, _nontrivial)
