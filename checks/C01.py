"""C01 - the message pump cannot be crashed or tricked by input."""
from checks import netgen, netsim

ID = "C01"
LEVEL = "exploration"
OWN = {"C01"}
RULE = ("seeded histories (10-60 ops) from simulated nodes, bootloaders and a controller against the real gateway of a drawn "
        "flavour (serial/tcp/async serial/async tcp/mqtt/async mqtt) and version, with hostile lines (tier-A invalid frames, "
        "corrupted/truncated/garbage text, malformed stream requests) each followed by liveness probes; non-trivial = at least "
        "one hostile line was processed while a smart-sleep node or an OTA session existed and a later probe was answered; "
        "distinct = distinct run digests")
TIERS = {
    "quick": {"runs": 3000, "max_wall": 240, "minimise_s": 25, "chunk": 25},
    "thorough": {"runs": 120000, "max_wall": 3000, "minimise_s": 60, "chunk": 100},
}
FAULT_KINDS = ["corrupted line", "truncated frame", "garbage text", "tier-A invalid frame", "malformed stream request",
               "raising event callback", "raising publish callback", "MQTT message on a topic the gateway never subscribed (forced delivery)",
               "stalled poll thread (descheduled for 0.15-0.6 s inside a job)"]
REAL = ["mysensors/* (all modules)", "serial.threaded", "voluptuous", "awesomeversion", "crcmod", "intelhex"]
STUBS = ["OS threads' scheduling (kernel baton)", "clock", "serial port / socket / asyncio transports", "MQTT broker", "disk"]
ASSUMPTIONS = ["tier-B classification of garbage lines uses the repo's own decoder/validator (consequences only)",
               "asyncio transports are stubs following the documented callback contract"]
REQUIRED_PROBES = ["rejected_lines", "ota_malformed_requests", "reply_held", "wakeups"]

WEIGHTS = {"invalid_frame": 8, "garbage": 9, "stream_bad": 5, "stream_cfg": 3, "stream_blk": 3, "ctl_fw": 4,
           "heartbeat": 7, "presleep": 7, "idreq": 6, "ctl_set": 8, "present_child": 12, "req": 9}
FLAVOURS = ["serial", "tcp", "aserial", "atcp", "mqtt", "amqtt"]


def gen(rng, tier, index):
    cfg = netgen.base_cfg(rng, FLAVOURS)
    if rng.random() < 0.6:
        cfg["version"] = rng.choice(["2.0", "2.1", "2.2"])
        netgen.respell(rng, cfg)
    if rng.random() < 0.15:
        cfg["cb_raise"] = sorted(rng.sample(range(40), 6))
    if cfg["flavour"] in ("mqtt", "amqtt"):
        cfg["in_prefix"] = rng.choice(["", "mygateway1-out", "a/b"])
        cfg["out_prefix"] = rng.choice(["", "mygateway1-in", "c/d"])
        if rng.random() < 0.2:
            cfg["pub_raise"] = sorted(rng.sample(range(30), 4))
        if rng.random() < 0.4:
            # the application's MQTT client has broader subscriptions of its own and hands every message to the
            # gateway's callback: topics the gateway never subscribed (too few / too many levels) reach it too
            cfg["mqtt_force"] = True
    n_ops = rng.randint(10, 60 if tier == "thorough" else 40)
    ops = netgen.make_ops(rng, cfg["version"], n_ops, WEIGHTS, probes_after_hostile=True, hostile_values=True, scenario=0.3)
    if rng.random() < 0.12:
        # histories in which the id space is exhausted early
        ops.insert(rng.randrange(0, 3), ["line", f"{rng.choice([254, 254, 255])};255;0;0;17;2.0"])
        for _ in range(rng.randint(2, 4)):
            ops.insert(rng.randrange(3, len(ops)), ["line", "255;255;3;0;3;"])
    if cfg["flavour"] in ("serial", "tcp") and rng.random() < 0.2:
        # controller calls from a second thread racing with the pump (pre-emptive schedule)
        cfg["sched"] = {"policy": "rw", "seed": rng.getrandbits(32), "p": rng.choice([0.02, 0.08, 0.2])}
        cfg["max_steps"] = 1_500_000
        ops = netgen.add_races(rng, cfg["version"], ops, rng.choice(["set", "fw"]) if cfg["version"] in ("2.0", "2.1", "2.2") else "fw")
    if cfg["flavour"] in ("serial", "tcp", "mqtt") and rng.random() < 0.25:
        # a stalled pump: now and then the poll thread is descheduled for 0.15-0.6 s of simulated time inside a job
        # (loaded host, VM pause); the slow paths this opens (slow-job bookkeeping) must not raise either
        sched = cfg.setdefault("sched", {"policy": "serial", "seed": rng.getrandbits(32)})
        sched["stall"] = {"p": rng.choice([0.02, 0.05, 0.15]), "durations": [0.15, 0.6]}
    return {"cfg": cfg, "ops": ops}


def run(case):
    res = netsim.run_case(case, OWN)
    run_ = res.pop("run")
    probes = res["probes"]
    hostile_in_state = probes.get("rejected_lines", 0) > 0 and (probes.get("wakeups", 0) > 0 or probes.get("ota_sessions_scheduled", 0) > 0)
    res["nontrivial"] = bool(hostile_in_state and probes.get("accepted_lines", 0) > 0)
    res["key"] = res["digest"]
    res["sample"] = {"cfg": {k: v for k, v in case["cfg"].items() if k != "sched"}, "ops": case["ops"][:12],
                     "n_ops": len(case["ops"]), "trace_tail": res.pop("trace")[-6:]}
    res["extra"] = {"handler_kinds": res.pop("kinds")}
    res.pop("last_kinds", None)
    _ = run_
    return res
