"""C08 - withheld traffic reaches the sleeping node exactly once, in order."""
from checks import netcheck, netgen

ID = "C08"
LEVEL = "exploration"
OWN = {"C08"}
RULE = ("seeded smart-sleep histories for gateway versions 2.0-2.2: nodes presenting equal / older / three-part / no version, "
        "children presented before and after the first wake-up, value reports, value/config/time requests while asleep, reboot "
        "requests, controller set-value calls with value types as int, IntEnum and numeric str and values valid for the gateway's or "
        "for another version; at every wake-up the burst must be: every held reply once, oldest first, then (multiset) one set per "
        "reported value type with a pending desired value; re-sent until confirmed; a normally returning set-value call must be "
        "deliverable; non-trivial = a burst with >=2 held replies, or a desired value re-sent at >=2 wake-ups, or a child presented "
        "after the first wake-up; distinct = distinct run digests")
TIERS = {
    "quick": {"runs": 4000, "max_wall": 240, "minimise_s": 25, "chunk": 50},
    "thorough": {"runs": 150000, "max_wall": 3000, "minimise_s": 60, "chunk": 200},
}
FAULT_KINDS = ["value valid only for another protocol version", "value type given as str / IntEnum", "raising event callback", "flood: 3-70 value requests of one sleeping node between two wake-ups"]
REAL, STUBS, ASSUMPTIONS = netcheck.REAL, netcheck.STUBS, netcheck.ASSUMPTIONS
REQUIRED_PROBES = ["burst_with_two_held", "burst_with_desired", "desired_stored", "reply_held"]
WEIGHTS = {"heartbeat": 16, "presleep": 16, "ctl_set": 18, "value": 16, "req": 12, "present_child": 10, "present_node": 5,
           "config": 4, "time": 3, "ctl_fw": 2, "stream_cfg": 1, "stream_blk": 1, "stream_bad": 0, "idreq": 1, "garbage": 1,
           "invalid_frame": 1, "unknown_traffic": 3, "internal_other": 1}
FLAVOURS = ["serial", "tcp", "aserial", "atcp", "mqtt", "amqtt"]


def gen(rng, tier, index):
    cfg = netgen.base_cfg(rng, FLAVOURS, versions=["2.0", "2.1", "2.2"])
    if rng.random() < 0.08:
        cfg["cb_raise"] = sorted(rng.sample(range(60), 10))
    if cfg["flavour"] in ("mqtt", "amqtt"):
        cfg["in_prefix"] = rng.choice(["", "gw-out"])
        cfg["out_prefix"] = rng.choice(["", "gw-in"])
    ops = netgen.make_ops(rng, cfg["version"], rng.randint(15, 60 if tier == "thorough" else 45), WEIGHTS, nodes=(1, 2), scenario=0.35, flood=0.15)
    if cfg["flavour"] in ("serial", "tcp") and rng.random() < 0.25:
        # set_child_value from a second thread while the node's wake-up is being processed
        cfg["sched"] = {"policy": "rw", "seed": rng.getrandbits(32), "p": rng.choice([0.02, 0.08, 0.2])}
        cfg["max_steps"] = 1_500_000
        ops = netgen.add_races(rng, cfg["version"], ops, "set")
    return {"cfg": cfg, "ops": ops}


def _nontrivial(probes, run_):
    return bool(probes.get("burst_with_two_held") or probes.get("burst_with_desired", 0) >= 2 or probes.get("child_after_wake"))


def run(case):
    return netcheck.run_net(case, OWN, _nontrivial)
