"""Workload generator for the W-net harness (simulated MySensors network peers).

Produces JSON-able op lists.  The generator keeps its own copy of the
reference model purely as bookkeeping (which nodes/children exist, who sleeps,
which OTA sessions are open) so that the traffic it draws is meaningful; it is
not an oracle.
"""
from model import tables
from model.gateway_model import GatewayModel
from model.ota_model import le16

NODE_POOL = [1, 2, 3, 5, 8, 42, 100, 200, 253, 254, 0, 255]
CHILD_POOL = [0, 1, 2, 3, 10, 100, 254]
TEXTS = ["", "x", "tëst", "𝛑", "a b", "0", "20.5", "hello world", "-3", "ÅÄÖ", "日本", "a/b", "28/09/2026", "q ", "'\"\\", "\x00z", "  lead",
         # characters that are syntax in the JSON file format
         "all fine :-}", "{", "}{", "[1,2", "{\"a\": 1}", "null", "],"]
VERSION_STRINGS = ["1.4", "1.5", "2.0", "2.1.1", "2.2", "2.2.0", "2.3.2"]

DEFAULT_WEIGHTS = {
    "present_node": 8, "present_node_odd": 1, "present_child": 10, "value": 14, "req": 6, "battery": 3, "sketch": 3,
    "heartbeat": 4, "presleep": 4, "time": 2, "config": 2, "idreq": 3, "adopt": 1, "gwready": 1, "discover_resp": 1,
    "internal_other": 2, "stream_cfg": 2, "stream_blk": 2, "stream_bad": 1, "stream_other": 1,
    "unknown_traffic": 4, "invalid_frame": 4, "garbage": 3, "ctl_set": 6, "ctl_setpair": 0, "ctl_fw": 2, "metric": 1,
    "advance": 2, "restart": 0, "clockjump": 0,
}

GARBAGE = [
    "", ";", ";;;;;", "bad;bad;bad;bad;bad;bad", "1;2;3", "1;1;1;0;0", "1;1;1;0;0;a;b", "1;1;1;0;0;a;b;c;d",
    "x;1;1;0;0;1", "1;x;1;0;0;1", "1;1;x;0;0;1", "1;1;1;x;0;1", "1;1;1;0;x;1", "1.0;1;1;0;0;1", " 1;1;1;0;0;1",
    "+1;1;1;0;0;1", "1_0;1;1;0;0;1", "١;1;1;0;0;1", "1;1;1;0;0;5 ", "1;1;1;0;0;5\t", "\x00", "1;1;1;0;0;\x00",
    "99999999999999999999;1;1;0;0;1", "1;99999999999999999999;1;0;0;1", "1;1;1;0;99999999999999999999;1",
    "-1;1;1;0;0;1", "1;-1;1;0;0;1", "256;1;1;0;0;1", "1;256;1;0;0;1", "1;1;5;0;0;1", "1;1;-1;0;0;1", "1;1;1;2;0;1",
    "1;255;1;0;0;1", "1;255;2;0;0;", "1;1;3;0;6;0", "1;1;4;0;0;00", "255;999;3;0;3;", "255;-5;3;0;3;", "1;255;3;0;3; ",
    "1;1;1;0;3; 50", "1;1;1;0;3;5_0", "1;1;1;0;3;٥", "1;1;1;0;23;nan", "1;1;1;0;23;inf", "1;1;1;0;23;1e1", "1;255;3;0;0; 50 ",
    "1;255;0;0;17;2.2.0 ", "1;255;0;0;17;2", "1;255;0;0;17;1.4.0", "1;255;0;0;17;v2.0", "1;255;0;0;17;2.0-beta",
    "1;255;3;0;22;1e3", "1;255;3;0;22;0x10", "1;255;4;0;0;zz", "1;255;4;0;2;0", "1;255;4;0;2;", "1;255;4;0;0;",
    "﻿1;1;1;0;0;1", "1;1;1;0;0;1\r", "１;1;1;0;0;1", "1;1;1;0;0;" + "A" * 300,
]


def w_choice(rng, weights):
    total = sum(w for _k, w in weights)
    x = rng.random() * total
    for key, w in weights:
        x -= w
        if x <= 0:
            return key
    return weights[-1][0]


class Gen:
    def __init__(self, rng, version, weights=None, nodes=(1, 4), image_max=300, restart_ok=False):
        self.rng = rng
        self.version = version
        self.v2 = version in ("2.0", "2.1", "2.2")
        self.model = GatewayModel(version)
        w = dict(DEFAULT_WEIGHTS)
        w.update(weights or {})
        if not self.v2:
            for key in ("heartbeat", "presleep", "discover_resp"):
                w[key] = 0
        if version != "2.2":
            w["presleep"] = 0
        self.weights = [(k, v) for k, v in sorted(w.items()) if v > 0]
        n_nodes = rng.randint(*nodes)
        self.my_nodes = rng.sample(NODE_POOL[:10], n_nodes) if rng.random() < 0.85 else rng.sample(NODE_POOL, n_nodes)
        self.ops = []
        self.image_max = image_max
        self.fw_keys = []
        self.hostile = 0
        self.id_predict = None
        self.hostile_values = False

    # ----------------------------------------------------------------- payloads
    def payload(self, rule, valid=None):
        rng = self.rng
        items = tables.CORPUS[rule]
        if valid is None:
            valid = rng.random() < 0.85
        pool = [p for p, ok in items if ok == valid] or [p for p, _ok in items]
        if rule == "text" and rng.random() < 0.4:
            return rng.choice(TEXTS[:14] + TEXTS[17:])
        return rng.choice(pool)

    def known_node(self):
        ids = list(self.model.nodes)
        return self.rng.choice(ids) if ids else None

    def a_node(self):
        if self.model.nodes and self.rng.random() < 0.8:
            return self.known_node()
        return self.rng.choice(self.my_nodes)

    def known_child(self, nid):
        kids = list(self.model.nodes[nid]["children"])
        return self.rng.choice(kids) if kids else None

    def emit_line(self, text, ending="\n"):
        fields = tables.parse_canonical(text)
        if fields is not None and tables.valid_frame(self.version, *fields) is True:
            exp = self.model.on_line(fields, 0)
            if exp.id_response is not None:
                nxt = max(self.model.nodes, default=0) + 1
                if nxt <= 254:
                    self.model.on_id_assigned(nxt)
        self.ops.append(["line", text] if ending == "\n" else ["line", text, ending])

    def sub_for_child(self, nid, cid):
        rng = self.rng
        child = self.model.nodes[nid]["children"][cid]
        if child["values"] and rng.random() < 0.6:
            return rng.choice(list(child["values"]))
        if rng.random() < 0.12:
            return 22  # the one sub-type whose payload rule differs between 1.4 and later versions
        smax = tables.SETREQ_MAX[self.version]
        special = [2, 3, 21, 22, 23, 15, 16, 36] + ([40, 41, 44, 45] if smax >= 46 else []) + ([47, 49, 56] if smax >= 56 else [])
        if rng.random() < 0.5:
            return rng.choice(special)
        return rng.randint(0, smax)

    # ---------------------------------------------------------------------- ops
    def step(self):
        rng = self.rng
        kind = w_choice(rng, self.weights)
        getattr(self, "g_" + kind)()

    def g_present_node(self):
        nid = self.rng.choice(self.my_nodes) if self.rng.random() < 0.8 else self.rng.choice(NODE_POOL)
        sub = self.rng.choice([17, 18])
        ver = self.rng.choice(VERSION_STRINGS) if self.rng.random() < 0.8 else self.payload("version")
        self.emit_line(f"{nid};255;0;0;{sub};{ver}")

    def g_present_node_odd(self):
        """A node-level presentation (child 255) with a sensor type and a description: what a child
        presentation becomes when its child id is corrupted to 0xFF.  Valid frame, no version in it."""
        nid = self.rng.choice(self.my_nodes) if self.rng.random() < 0.8 else self.rng.choice(NODE_POOL)
        pmax = tables.PRES_MAX[self.version]
        sub = self.rng.choice([s for s in range(0, pmax + 1) if s not in (17, 18)])
        rule = tables.payload_rule(self.version, 0, sub)
        self.emit_line(f"{nid};255;0;{self.rng.choice([0, 0, 1])};{sub};{self.payload(rule)}")

    def g_present_child(self):
        nid = self.a_node()
        cid = self.rng.choice(CHILD_POOL)
        pmax = tables.PRES_MAX[self.version]
        sub = self.rng.randint(0, pmax)
        if sub in (17, 18) and self.rng.random() < 0.7:
            sub = 6
        rule = tables.payload_rule(self.version, 0, sub)
        self.emit_line(f"{nid};{cid};0;{self.rng.choice([0, 0, 1])};{sub};{self.payload(rule)}")

    def _node_child(self):
        nid = self.known_node()
        if nid is None:
            return None, None
        cid = self.known_child(nid)
        return nid, cid

    def g_value(self):
        nid, cid = self._node_child()
        if nid is None or cid is None:
            return self.g_present_child() if nid is not None else self.g_present_node()
        sub = self.sub_for_child(nid, cid)
        rule = tables.payload_rule(self.version, 1, sub)
        self.emit_line(f"{nid};{cid};1;{self.rng.choice([0, 0, 0, 1])};{sub};{self.payload(rule)}")
        return None

    def g_req(self):
        nid, cid = self._node_child()
        if nid is None or cid is None:
            return self.g_present_node()
        sub = self.sub_for_child(nid, cid)
        self.emit_line(f"{nid};{cid};2;{self.rng.choice([0, 0, 1])};{sub};")
        return None

    def g_battery(self):
        self.emit_line(f"{self.a_node()};255;3;0;0;{self.payload('pct')}")

    def g_sketch(self):
        sub = self.rng.choice([11, 12])
        self.emit_line(f"{self.a_node()};255;3;0;{sub};{self.payload('text')}")

    def g_heartbeat(self):
        self.emit_line(f"{self.a_node()};255;3;0;22;{self.payload('int')}")

    def g_presleep(self):
        self.emit_line(f"{self.a_node()};255;3;0;32;{self.payload('int')}")

    def g_time(self):
        self.emit_line(f"{self.a_node()};255;3;0;1;{self.payload('time')}")

    def g_config(self):
        self.emit_line(f"{self.a_node()};255;3;{self.rng.choice([0, 1])};6;{self.payload('config')}")

    def g_idreq(self):
        nid = 255 if self.rng.random() < 0.8 else self.a_node()
        cid = 255 if self.rng.random() < 0.8 else self.rng.choice(CHILD_POOL)
        self.emit_line(f"{nid};{cid};3;{self.rng.choice([0, 0, 1])};3;")

    def g_adopt(self):
        if self.model.handed_out:
            k = self.rng.randrange(len(self.model.handed_out))
            ver = self.rng.choice(VERSION_STRINGS)
            nid = self.model.handed_out[k]
            self.model.on_line((nid, 255, 0, 0, 17, ver), 0)
            self.ops.append(["adopt", k, ver])

    def g_gwready(self):
        self.emit_line(f"0;255;3;0;14;{self.payload('text')}")

    def g_discover_resp(self):
        self.emit_line(f"{self.a_node()};255;3;0;21;{self.payload('int0_254')}")

    def g_internal_other(self):
        imax = tables.INTERNAL_MAX[self.version]
        sub = self.rng.randint(0, imax)
        rule = tables.payload_rule(self.version, 3, sub)
        self.emit_line(f"{self.a_node()};255;3;{self.rng.choice([0, 1])};{sub};{self.payload(rule)}")

    # -- OTA -------------------------------------------------------------------------
    def _session_node(self):
        live = [n for n in self.model.ota.state if n in self.model.nodes]
        if live and self.rng.random() < 0.85:
            return self.rng.choice(live)
        return self.a_node()

    def g_stream_cfg(self):
        nid = self._session_node()
        rng = self.rng
        words = (rng.choice([0, 1, 10]), rng.choice([0, 1, 2]), rng.choice([0, 8, 64]), rng.randrange(65536), 0x0102)
        target = self.model.ota.target.get(nid)
        if target is not None and target in self.model.ota.firmware and rng.random() < 0.35:
            # the node reports exactly the firmware it is scheduled for (a re-flash of the same image, or
            # the same version with another CRC): the config response is due all the same
            blocks, crc = self.model.ota.advertised(target)[:2]
            words = (target[0], target[1], blocks, crc if rng.random() < 0.7 else (crc + 1) & 0xFFFF, 0x0102)
        self.emit_line(f"{nid};255;4;{rng.choice([0, 0, 1])};0;{le16(*words).upper() if rng.random() < 0.3 else le16(*words)}")

    def g_stream_blk(self):
        nid = self._session_node()
        rng = self.rng
        target = self.model.ota.target.get(nid)
        if target is not None and rng.random() < 0.85:
            ftype, fver = target
        elif self.fw_keys and rng.random() < 0.5:
            ftype, fver = rng.choice(self.fw_keys)
        else:
            ftype, fver = rng.choice([0, 1, 9]), rng.choice([0, 1, 9])
        blocks = 8
        if (ftype, fver) in self.model.ota.firmware:
            blocks = self.model.ota.advertised((ftype, fver))[0]
        blk = rng.randrange(blocks) if rng.random() < 0.85 else rng.choice([blocks, blocks + 1, 65535, blocks + 7])
        self.emit_line(f"{nid};255;4;{rng.choice([0, 0, 1])};2;{le16(ftype, fver, blk)}")

    def g_stream_bad(self):
        nid = self._session_node()
        rng = self.rng
        sub = rng.choice([0, 2])
        full = le16(1, 1, 2, 3, 4) if sub == 0 else le16(1, 1, 0)
        choice = rng.randrange(6)
        if choice == 0:
            payload = full[:rng.randrange(len(full))]
        elif choice == 1:
            payload = full + "00"
        elif choice == 2:
            payload = "zz" + full[2:]
        elif choice == 3:
            payload = full[:-1]
        elif choice == 4:
            payload = ""
        else:
            payload = full + "0"
        if rng.random() < 0.2:
            # the right digits with blanks or tabs between or before them (some hex decoders skip white space;
            # the frame is malformed all the same).  For a scheduled node the digits are those of a request
            # that WOULD be answered if it were well-formed.
            target = self.model.ota.target.get(nid)
            if target is not None and target in self.model.ota.firmware:
                blocks, crc = self.model.ota.advertised(target)[:2]
                full = le16(target[0], target[1], blocks, crc, 0x0102) if sub == 0 else le16(target[0], target[1], 0)
            pos = rng.choice([0, 4, 8, len(full) - 4])
            payload = full[:pos] + rng.choice([" ", "\t", "  "]) + full[pos:]
            self.hostile += 1
            self.emit_line(f"{nid};255;4;0;{sub};{payload}")
            return
        if rng.random() < 0.25:
            # hex look-alikes with characters outside ASCII (what a corrupted byte turns into)
            pos = rng.randrange(len(full))
            payload = full[:pos] + rng.choice(["µ", "\ufffd", "é", "０", "𝟘"]) + full[pos + 1:]
        self.hostile += 1
        if rng.random() < 0.2:
            raw = f"{nid};255;4;0;{sub};".encode() + full.encode()
            pos = rng.randrange(len(raw) - len(full), len(raw))
            raw = raw[:pos] + bytes([rng.choice([0xFF, 0xC3, 0x80, 0xE2])]) + raw[pos + 1:]
            self.ops.append(["raw", raw.hex()])
            return
        self.emit_line(f"{nid};255;4;0;{sub};{payload}")

    def g_stream_other(self):
        nid = self._session_node()
        sub = self.rng.choice([1, 3, 4, 5])
        self.emit_line(f"{nid};255;4;0;{sub};{self.payload('text')}")

    # -- traffic for things the gateway does not know --------------------------------------
    def g_unknown_traffic(self):
        rng = self.rng
        nid = rng.choice(NODE_POOL)
        cid = rng.choice(CHILD_POOL + [77])
        which = rng.randrange(5)
        if which == 0:
            self.emit_line(f"{nid};{cid};1;0;0;{self.payload('text')}")
        elif which == 1:
            self.emit_line(f"{nid};{cid};2;0;0;")
        elif which == 2:
            self.emit_line(f"{nid};{cid};0;0;6;{self.payload('text')}")
        elif which == 3:
            self.emit_line(f"{nid};255;3;0;{rng.choice([0, 11, 12])};{rng.choice(['5', '50'])}")
        else:
            self.emit_line(f"{nid};255;4;0;{rng.choice([0, 2])};{le16(1, 1, 0) if rng.random() < 0.5 else le16(1, 1, 2, 3, 4)}")

    def g_invalid_frame(self):
        rng = self.rng
        self.hostile += 1
        nid = self.a_node()
        which = rng.randrange(9)
        if which == 8:
            # a truncated frame: everything up to the sub-type, but no ';' and no payload field (five fields) - also for
            # frames whose payload may legitimately be empty, and for a known node / child
            kid = self.known_child(nid) if nid in self.model.nodes else None
            forms = ["255;255;3;0;3", f"{nid};255;3;0;0", f"{nid};255;3;0;11"]
            if kid is not None:
                sub = self.sub_for_child(nid, kid)
                forms += [f"{nid};{kid};1;0;{sub}", f"{nid};{kid};2;0;{sub}", f"{nid};{kid};1;0;{sub}", f"{nid};{kid};0;0;6"]
            self.emit_line(rng.choice(forms))
        elif which == 7:
            # child id out of range (or, for a stream frame, not 255) with a sub-type drawn over the whole table -
            # also 3 and 4, which only for INTERNAL messages (id request / response) excuse an odd child id
            cmd = rng.choice([0, 1, 2, 4])
            sub = rng.choice([3, 4, 3, 4, rng.randint(0, tables.sub_max(self.version, cmd))])
            cid = rng.choice([256, 300, 999, -1]) if cmd != 4 or rng.random() < 0.5 else rng.choice([0, 1, 254])
            rule = tables.payload_rule(self.version, cmd, min(sub, tables.sub_max(self.version, cmd)))
            payload = "" if cmd == 2 else ("0A0001005000D4460102" if cmd == 4 and sub == 0 else ("010001000000" if cmd == 4 else self.payload(rule, valid=True)))
            self.emit_line(f"{nid};{cid};{cmd};0;{sub};{payload}")
        elif which == 0:  # bad payload for the sub-type's rule
            cmd = rng.choice([1, 3, 0, 2])
            smax = tables.sub_max(self.version, cmd)
            for _ in range(20):
                sub = rng.randint(0, smax)
                rule = tables.payload_rule(self.version, cmd, sub)
                bad = [p for p, ok in tables.CORPUS[rule] if not ok]
                if bad:
                    cid = 255 if cmd == 3 or (cmd == 0 and sub in (17, 18)) else (self.known_child(nid) if nid in self.model.nodes and self.known_child(nid) is not None else 1)
                    self.emit_line(f"{nid};{cid};{cmd};0;{sub};{rng.choice(bad)}")
                    return
            self.emit_line(f"{nid};1;1;0;2;7")
        elif which == 1:  # sub-type just outside the table
            cmd = rng.choice([0, 1, 2, 3, 4])
            sub = tables.sub_max(self.version, cmd) + rng.choice([1, 2])
            cid = 255 if cmd in (3, 4) else 1
            self.emit_line(f"{nid};{cid};{cmd};0;{sub};")
        elif which == 2:  # id out of range
            self.emit_line(f"{rng.choice([256, 300, -1])};1;1;0;0;1")
        elif which == 3:  # child 255 with set/req, or child != 255 with internal
            if rng.random() < 0.5:
                self.emit_line(f"{nid};255;{rng.choice([1, 2])};0;0;{'' if rng.random() < 0.5 else '1'}")
            else:
                self.emit_line(f"{nid};{rng.choice([0, 1, 254])};{rng.choice([3, 4])};0;{rng.choice([0, 6, 11])};5")
        elif which == 4:  # bad ack
            self.emit_line(f"{nid};1;1;{rng.choice([2, -1, 9])};0;1")
        elif which == 5 and nid in self.model.nodes and self.known_child(nid) is not None:
            # two frames run together on a noisy link: more than six fields, for a free-text sub-type of a known child
            cid = self.known_child(nid)
            sub = rng.choice([24, 25, 26, 27, 28, 0, 1] + ([47] if self.v2 else []))
            self.emit_line(f"{nid};{cid};1;0;{sub};on;{nid};{cid};1;0")
            if rng.random() < 0.7:
                self.emit_line(f"{nid};{cid};2;0;{sub};")
        else:  # bad command
            self.emit_line(f"{nid};1;{rng.choice([5, 6, -1, 9])};0;0;1")

    def g_garbage(self):
        rng = self.rng
        self.hostile += 1
        text = rng.choice(GARBAGE)
        if rng.random() < 0.3 and self.model.nodes:
            # corrupt a plausible frame for a known node
            nid, cid = self._node_child()
            base = f"{nid};{cid if cid is not None else 1};1;0;{rng.choice([0, 2, 3, 23])};{rng.choice(TEXTS)}"
            how = rng.randrange(4)
            if how == 0:
                text = base[:rng.randrange(len(base) + 1)]
            elif how == 1:
                pos = rng.randrange(len(base))
                text = base[:pos] + rng.choice(";x\x00 é") + base[pos + 1:]
            elif how == 2:
                text = base + ";" + base
            else:
                text = base.replace(";", ";;", 1)
        text = text.replace("\n", " ")
        if rng.random() < 0.15:
            raw = text.encode("utf-8")
            if raw:
                pos = rng.randrange(len(raw))
                raw = raw[:pos] + bytes([rng.choice([0xFF, 0xFE, 0xC3, 0x80, 0xE2, 0xF0])]) + raw[pos + 1:]
                self.ops.append(["raw", raw.replace(b"\n", b" ").hex()])
                return
        self.emit_line(text, rng.choice(["\n", "\n", "\r\n"]))

    # -- controller ------------------------------------------------------------------------
    def g_ctl_set(self):
        rng = self.rng
        nid, cid = self._node_child()
        if nid is None:
            nid, cid = rng.choice(NODE_POOL), 1
        elif cid is None or rng.random() < 0.1:
            cid = rng.choice(CHILD_POOL)
        if cid in self.model.nodes.get(nid, {"children": {}})["children"]:
            sub = self.sub_for_child(nid, cid)
        else:
            sub = rng.randint(0, tables.SETREQ_MAX[self.version])
        rule_version = self.version
        node_floor = tables.version_floor(self.model.nodes[nid]["version"]) if nid in self.model.nodes else self.version
        if node_floor != self.version and sub <= tables.SETREQ_MAX[node_floor] and rng.random() < 0.5:
            rule_version = node_floor  # what the node itself would consider valid
        elif rng.random() < 0.25:
            # a value that is right for another protocol version (e.g. the node's own)
            rule_version = rng.choice([v for v in tables.VERSIONS if sub <= tables.SETREQ_MAX[v]])
        rule = tables.payload_rule(rule_version, 1, sub)
        value = self.payload(rule).rstrip()  # the wire format cannot carry trailing blanks
        if self.hostile_values and rng.random() < 0.2:
            value = rng.choice(["a;b", ";", "1;2;3;4;5;6", "x\ny", "5;", "tëst;𝛑"])
        if rng.random() < 0.15 and rule in ("pct", "bin", "int"):
            try:
                value = int(value)
            except ValueError:
                pass
        form = rng.randrange(10)
        vtype = sub
        if form < 3:
            vtype = str(sub)
        elif form < 5:
            vtype = ["enum", sub]
        kw = {"ack": 1} if rng.random() < 0.15 else {}
        if rng.random() < 0.06 and rule == "text":
            # the rarely used msg_type keyword: poll a value (a req carries no payload)
            kw = {"msg_type": 2}
            value = ""
        self.ops.append(["set", nid, cid, vtype, value, kw])
        action, _exp = self.model.set_child_value_plan(nid, cid, sub, value)
        if action == "store" and tables.valid_frame(self.version, nid, cid, 1, 0, sub, str(value)):
            self.model.store_desired(nid, cid, sub, str(value))
        if action == "store" and rng.random() < 0.35:
            # the node asks for the very value the controller just tried to change
            self.emit_line(f"{nid};{cid};2;{rng.choice([0, 1])};{sub};")

    def g_ctl_setpair(self):
        """Two controller calls for two nodes the gateway does not know, issued back to back (nothing runs in
        between on the threaded flavours): each must get its own answer (2.x: a presentation request to THAT node)."""
        rng = self.rng
        unknown = [n for n in NODE_POOL[:10] + [77, 150] if n not in self.model.nodes]
        if len(unknown) < 2:
            return self.g_ctl_set()
        a, b = rng.sample(unknown, 2)
        sub = rng.choice([2, 0, 24])
        rule = tables.payload_rule(self.version, 1, sub)
        self.ops.append(["setpair", [a, rng.choice(CHILD_POOL), sub, self.payload(rule, valid=True).rstrip()],
                         [b, rng.choice(CHILD_POOL), sub, self.payload(rule, valid=True).rstrip()]])
        return None

    def g_ctl_fw(self):
        rng = self.rng
        known = list(self.model.nodes)
        pick = rng.randrange(6)
        if pick == 0 or not known:
            nids = rng.choice(NODE_POOL)
        elif pick == 1:
            nids = rng.sample(known, min(len(known), rng.randint(1, 3))) + ([77] if rng.random() < 0.4 else [])
            rng.shuffle(nids)  # an id the gateway does not know may stand anywhere in the list, also first
        else:
            nids = rng.choice(known)
        ftype = rng.choice([0, 1, 1, 10, 255, 256, 65535])
        fver = rng.choice([0, 1, 2, 65535])
        if rng.random() < 0.06:
            # a type / version the 16-bit fields of the protocol cannot carry: not a firmware the gateway can offer
            if rng.random() < 0.5:
                ftype = rng.choice([65536, 70000, -1])
            else:
                fver = rng.choice([65536, 100000, -2])
        image_hex = None
        via = "bin"
        form = rng.randrange(10)
        if form < 6 and rng.random() < 0.08:
            # a HEX file that encodes no data at all (only the end-of-file record): not a firmware
            image_hex = ""
            via = "hex"
        elif form < 6 or not self.fw_keys:
            ln = rng.choice([1, 15, 16, 17, 127, 128, 129, 255, 256, 257]) if rng.random() < 0.7 else rng.randint(1, self.image_max)
            ln = min(ln, self.image_max)
            fill = rng.randrange(4)
            if fill == 0:
                image = bytes([0xFF]) * ln
            elif fill == 1:
                image = bytes(ln)
            else:
                image = bytes(rng.randrange(256) for _ in range(ln))
            image_hex = image.hex()
            via = rng.choice(["bin", "bin", "hex"])
        elif form < 8:
            ftype, fver = rng.choice(self.fw_keys)
        elif form == 8:
            ftype = "1x" if rng.random() < 0.5 else ftype  # invalid type string
        if isinstance(ftype, int) and rng.random() < 0.1:
            ftype = str(ftype)
        self.ops.append(["fw", nids, ftype, fver, image_hex, via])
        try:
            ti, vi = int(ftype), int(fver)
        except ValueError:
            return
        image = bytes.fromhex(image_hex) if image_hex is not None else None
        if image == b"":
            return  # nothing loadable: no firmware, no session
        if not (0 <= ti <= 0xFFFF and 0 <= vi <= 0xFFFF):
            return  # not a firmware the protocol can offer
        done = self.model.ota.schedule(self.model.nodes, nids if not isinstance(nids, list) else list(nids), ti, vi, image)
        if image is not None and (ti, vi) not in self.fw_keys:
            self.fw_keys.append((ti, vi))
        for nid in done:
            self.model.nodes[nid]["reboot"] = True

    def g_metric(self):
        self.ops.append(["metric", self.rng.random() < 0.5])

    def g_advance(self):
        self.ops.append(["advance", self.rng.choice([0.05, 0.5, 3.0, 9.99, 10.0, 10.5, 25.0])])

    def g_clockjump(self):
        self.ops.append(["clockjump", self.rng.choice([-86400.0, -3600.0, -1.0, 1.0, 3600.0, 86400.0 * 30])])

    def g_restart(self):
        self.ops.append(["restart"])
        # transient state is gone after a restart
        old = self.model
        self.model = GatewayModel(self.version)
        for nid, rec in old.nodes.items():
            self.model.nodes[nid] = dict(rec, desired={}, sleep_children=[], held=[], reboot=False)
        self.fw_keys = []

    def probe_line(self):
        """Liveness probe: a config request from a node id nobody uses."""
        self.emit_line(f"{self.rng.choice([77, 78, 79])};255;3;0;6;0")


def make_ops(rng, version, n_ops, weights=None, probes_after_hostile=False, hostile_values=False, scenario=0.0, flood=0.0, **kwargs):
    kwargs_scen = scenario
    gen = Gen(rng, version, weights, **kwargs)
    gen.hostile_values = hostile_values
    if rng.random() < kwargs_scen:
        # scenario prefix: a smart-sleep node whose presented version is older than (or was
        # never presented to) the gateway, with reports for the version-sensitive sub-types
        nid = rng.choice(gen.my_nodes)
        ver = rng.choice(["1.4", "1.4", "1.5", None, "2.0", "2.2.0"])
        if ver is not None:
            gen.emit_line(f"{nid};255;0;0;17;{ver}")
        else:
            gen.emit_line("255;255;3;0;3;")
            nid = gen.model.handed_out[-1] if gen.model.handed_out else nid
            if nid not in gen.model.nodes:
                gen.emit_line(f"{nid};255;0;0;17;1.4")
        cid = rng.choice(CHILD_POOL)
        gen.emit_line(f"{nid};{cid};0;0;14;heater")
        wake = f"{nid};255;3;0;32;500" if version == "2.2" else f"{nid};255;3;0;22;7"
        if gen.v2:
            gen.emit_line(wake)
        subs = rng.sample([(22, "Min"), (21, "Off"), (2, "1"), (0, "20.5"), (3, "40")], 3)
        for sub, val in subs:
            gen.emit_line(f"{nid};{cid};1;0;{sub};{val}")
        if gen.v2 and nid in gen.model.nodes and rng.random() < 0.5:
            # the controller asks for a value that is right for the NODE's (older) protocol version - which may or may
            # not be acceptable to the gateway's - for a type the node has reported; then the node wakes up
            node_floor = tables.version_floor(gen.model.nodes[nid]["version"])
            sub = rng.choice(subs)[0]
            if sub <= tables.SETREQ_MAX[node_floor]:
                value = gen.payload(tables.payload_rule(node_floor, 1, sub), valid=True).rstrip()
                gen.ops.append(["set", nid, cid, sub, value, {}])
                action, _exp = gen.model.set_child_value_plan(nid, cid, sub, value)
                if action == "store" and tables.valid_frame(gen.version, nid, cid, 1, 0, sub, str(value)):
                    gen.model.store_desired(nid, cid, sub, str(value))
                gen.emit_line(wake)
        if gen.v2 and rng.random() < flood:
            # a sleeping node that asks a lot between two wake-ups: every withheld answer (also the
            # seventeenth, also identical ones) is due at the next wake-up, oldest first
            for _ in range(rng.choice([3, 12, 17, 18, 33, 70])):
                gen.emit_line(f"{nid};{cid};2;0;{rng.choice(subs)[0]};")
            gen.emit_line(wake)
    if dict(gen.weights).get("idreq", 0) > 0 and rng.random() < 0.04:
        # scenario prefix: the top of the id space - a node with a static id just below the maximum, id
        # requests up to and beyond 254 (the last assignable id must be handed out, the next request
        # goes unanswered), and the node that got the last id uses it
        top = rng.choice([251, 252, 253, 253])
        gen.emit_line(f"{top};255;0;0;17;{rng.choice(VERSION_STRINGS)}")
        for _ in range(254 - top + rng.randint(0, 1)):
            gen.emit_line("255;255;3;0;3;")
        if 254 in gen.model.nodes:
            gen.emit_line(f"254;255;0;0;17;{rng.choice(VERSION_STRINGS)}")
            gen.emit_line("254;1;0;0;6;last")
            gen.emit_line("254;1;1;0;0;21.5")
    for _ in range(rng.randint(0, 3)):
        gen.g_present_node()
        if rng.random() < 0.8:
            gen.g_present_child()
    while len(gen.ops) < n_ops:
        before = gen.hostile
        gen.step()
        if probes_after_hostile and gen.hostile > before and rng.random() < 0.5:
            gen.probe_line()
    if probes_after_hostile:
        gen.probe_line()
    return gen.ops


def base_cfg(rng, flavours, versions=tables.VERSIONS, persistence=(None,), sched=None):
    cfg = {
        "flavour": rng.choice(list(flavours)),
        "version": rng.choice(list(versions)),
        "persistence": rng.choice(list(persistence)),
        "epoch": float(rng.choice([1_600_000_000, 1_616_893_000, 1_635_641_000, 946_684_799, 2_000_000_000]) + rng.randrange(0, 86400)),
        "utc_offset": rng.choice([0, 0, 3600, 7200, -18000, 19800, 45900, -43200]),
        "sched": sched or {"policy": "serial"},
    }
    respell(rng, cfg)
    return cfg


def respell(rng, cfg):
    """With some probability configure the gateway with an equivalent spelling of its version."""
    cfg.pop("version_str", None)
    if rng.random() < 0.2:
        if cfg["version"] != "2.2":
            cfg["version_str"] = cfg["version"] + rng.choice([".0", ".0", ".1", ".3"])
        else:
            cfg["version_str"] = rng.choice(["2.2.0", "2.2.0", "2.2.1", "2.3", "2.3.2", "2.10"])


def chunkify(rng, ops, max_lines=5, p_join=0.6):
    """Merge runs of consecutive line ops into multi-line chunks (device flavours)."""
    out = []
    solo = False
    for op in ops:
        # an id request is kept in a chunk of its own: which id it was given is only observable
        # through the reply (or, for a sleeping requester, through the one new node)
        parts = op[1].split(";") if op[0] == "line" else []
        is_idreq = len(parts) == 6 and parts[2] == "3" and parts[4] == "3"
        if op[0] == "line" and (is_idreq or solo):
            out.append(["chunk", [[op[1], op[2] if len(op) > 2 else "\n"]]])
            solo = is_idreq
            if not is_idreq:
                solo = False
            continue
        if op[0] == "line" and out and out[-1][0] == "chunk" and len(out[-1][1]) < max_lines and rng.random() < p_join:
            out[-1][1].append([op[1], op[2] if len(op) > 2 else "\n"])
        elif op[0] == "line":
            out.append(["chunk", [[op[1], op[2] if len(op) > 2 else "\n"]]])
        else:
            out.append(op)
    return out


def add_races(rng, version, ops, kind, n=(2, 5)):
    """Insert controller-call races (see NetRun.op_race) into an op list.  ``kind``: "set" (a
    set_child_value for a NEW value type of a sleeping node's child racing with that node's
    wake-up) or "fw" (an update call racing with the node's config request, followed by a
    sequential config request that must be answered)."""
    model = GatewayModel(version)
    out = []
    wake_sub = 32 if version == "2.2" else 22
    fresh_types = [24, 25, 26, 27, 28, 0, 1, 4, 38, 39]
    budget = rng.randint(*n)
    for op in ops:
        out.append(op)
        if op[0] == "line":
            fields = tables.parse_canonical(op[1])
            if fields is not None and tables.valid_frame(version, *fields) is True:
                exp = model.on_line(fields, (0, 0))
                if exp.id_response is not None:
                    nxt = max(model.nodes, default=0) + 1
                    if nxt <= 254:
                        model.on_id_assigned(nxt)
        if budget <= 0 or rng.random() > 0.25:
            continue
        if kind == "set":
            sleepers = [n_ for n_ in model.nodes if model.sleeping(n_)]
            if not sleepers:
                continue
            nid = rng.choice(sleepers)
            cid = rng.choice(model.nodes[nid]["sleep_children"])
            child = model.nodes[nid]["children"][cid]
            have = [t for t in child["values"]]
            new_types = [t for t in fresh_types if t not in model.nodes[nid]["desired"].get(cid, {})]
            if not have or not new_types:
                # make sure something is pending and something was reported
                out.append(["line", f"{nid};{cid};1;0;{rng.choice(fresh_types[:5])};r{rng.randrange(100)}"])
                continue
            vt = rng.choice(new_types)
            out.append(["set", nid, cid, have[0], f"d{rng.randrange(100)}", {}])
            spec = {"line": f"{nid};255;3;0;{wake_sub};{rng.randrange(1000)}", "call": ["set", nid, cid, vt, f"n{rng.randrange(100)}"]}
            others = [n_ for n_ in model.nodes if n_ != nid and not model.sleeping(n_) and isinstance(n_, int) and 0 < n_ < 255]
            if others and rng.random() < 0.6:
                spec["behind"] = f"{rng.choice(others)};255;3;0;0;{rng.randrange(101)}"  # another node's battery report right behind
            out.append(["race", spec])
            model.store_desired(nid, cid, vt, "x")
            budget -= 1
        else:
            known = list(model.nodes)
            if not known:
                continue
            nid = rng.choice(known)
            ftype, fver = rng.choice([1, 2, 10]), rng.choice([1, 2])
            image = bytes(rng.randrange(256) for _ in range(rng.choice([16, 100, 128, 200]))).hex()
            cfg_req = f"{nid};255;4;0;0;{le16(1, 1, 8, 0xABCD, 0x0102)}"
            out.append(["race", {"line": cfg_req, "call": ["fw", [nid], ftype, fver, image]}])
            out.append(["line", cfg_req])
            model.ota.schedule(model.nodes, [nid], ftype, fver, bytes.fromhex(image))
            budget -= 1
    return out
