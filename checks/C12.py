"""C12 - saving replaces the persistence file atomically."""
import hashlib

from checks import diskutil
from sim import fs as simfs
from sim import kernel

ID = "C12"
LEVEL = "fault_enumeration"
OWN = {"C12"}
RULE = ("per run: format (pickle/json), user-space buffer size, prior on-disk configuration (no file / good file / good+stale .bak / "
        "good+stale .tmp / both), old and new state from two simulated histories, then ONE fault inside the save of the new state: "
        "fault point drawn from the numbered file-system operations of that save (isfile, access, open, every buffered write, flush, "
        "fsync, close, rename#1, rename#2, remove) x kind (crash before/after, EIO, ENOSPC with short write, EACCES) x crash "
        "resolution (process death; power loss with un-synced data kept/dropped/prefix/zero-filled and a drawn prefix of the "
        "directory journal). Oracle: a fresh gateway's start-up load yields exactly the old or the new state; after a failed op one "
        "more save succeeds and reloads to the current state; in 60% of those runs the save after the failed one is itself interrupted at a drawn "
        "operation (process death / power loss) on a copy of the disk and the load must still give old or new. 12% of the runs keep the configured file as a symbolic link into another "
        "directory. 15% of the runs are OVERLAP runs instead: two saves of one process (timer thread and stopping thread, a state change in "
        "between) under a pre-emptive schedule inside the save code, process death at a drawn operation of either of them or none; the "
        "load must give one of the complete states old / mid / new. non-trivial = the fault landed after the first write to the temp file "
        "and not after the last directory operation; distinct = distinct (format, prior, op kind#occurrence, fault kind, resolution) tuples")
TIERS = {
    "quick": {"runs": 6000, "max_wall": 240, "minimise_s": 20, "chunk": 100},
    "thorough": {"runs": 250000, "max_wall": 3000, "minimise_s": 60, "chunk": 500},
}
FAULT_KINDS = ["NOMEM (MemoryError out of a file operation)", "crash in the save after a failed one", "crash_before", "crash_after", "EIO", "ENOSPC (short write)", "EACCES", "two overlapping saves (schedule)", "configured file is a symlink", "powerloss: unsynced data kept/dropped/prefix/zerofill",
               "powerloss: journal prefix"]
REAL = ["mysensors.persistence (save_sensors, safe_load_sensors, both serialisers)", "mysensors.task.start_persistence", "pickle", "json",
        "mysensors handlers building the states"]
STUBS = ["file system (SimFS: durable/volatile layers, ordered journal, buffered writer)", "threading.Timer (simulated)"]
ASSUMPTIONS = ["ordered-metadata journaling file system: directory operations survive as a prefix; fsync commits earlier directory operations",
               "rename is atomic; a crash never tears a single rename",
               "data in the CPython user-space write buffer is lost by any crash"]
REQUIRED_PROBES = ["crash_runs", "failed_op_runs", "loaded_old", "loaded_new"]

PRIORS = ["none", "good", "good+bak", "good+tmp", "good+bak+tmp"]
KINDS = ["crash_before", "crash_after", "EIO", "ENOSPC", "EACCES", "ETIMEDOUT", "NOMEM"]
RESOLUTIONS = ["strict", "power-kept", "power-dropped", "power-prefix", "power-zerofill"]


SAVE_WINDOW = frozenset(["save_sensors", "_save_sensors", "_perform_file_action", "_save_json", "_save_pickle"])


def gen(rng, tier, index):
    version = rng.choice(["1.4", "1.5", "2.0", "2.1", "2.2"])
    fmt = rng.choice(["pickle", "json"])
    if rng.random() < 0.15:
        # two saves of one process overlap (the scheduled save is still running when stop() - or the next tick -
        # saves again, with a state change in between), pre-emptive schedule inside the save code, process
        # death at a drawn file-system operation of either of them (or none)
        return {
            "cfg": {"mode": "overlap", "version": version, "fmt": fmt, "bufsize": rng.choice([16, 64, 512, 8192]),
                    "kind": rng.choice(["crash_before", "crash_after", "none"]), "resolution": rng.choice(RESOLUTIONS),
                    "journal_frac": rng.random(), "cut": rng.random(), "point": rng.random() * 2.2,
                    "sched": {"policy": "rw", "seed": rng.getrandbits(32), "p": rng.choice([0.05, 0.15, 0.4])},
                    "relpath": rng.choice([None, None, "mysensors"])},
            "old": diskutil.state_lines(rng, version, rng.randint(2, 12)),
            "new": diskutil.state_lines(rng, version, rng.randint(1, 8)) + [f"{rng.choice([1, 2, 3])};255;0;0;17;2.{rng.randrange(3)}"],
            "stale": [f"{rng.choice([4, 5, 6])};255;0;0;17;2.{rng.randrange(3)}"],
        }
    return {
        "cfg": {"version": version, "fmt": fmt, "prior": rng.choice(PRIORS), "bufsize": rng.choice([16, 64, 512, 8192, 8192]),
                "kind": rng.choice(KINDS), "resolution": rng.choice(RESOLUTIONS), "journal_frac": rng.random(),
                "cut": rng.random(), "point": rng.random(), "point2": rng.random(), "long_tmp": rng.random() < 0.5,
                "relpath": rng.choice([None, None, None, "mysensors", "some_folder/mysensors"]), "symlink": rng.random() < 0.12,
                "second_crash": ({"point": rng.random(), "point2": rng.random(), "kind": rng.choice(["crash_before", "crash_after"])}
                                 if rng.random() < 0.6 else None)},
        "old": diskutil.state_lines(rng, version, rng.randint(2, 25)),
        "new": diskutil.state_lines(rng, version, rng.randint(1, 12)) + [f"{rng.choice([1, 2, 3])};255;0;0;17;2.{rng.randrange(3)}"],
        "stale": diskutil.state_lines(rng, version, rng.randint(1, 6)),
    }


def _vio(cls, detail, **sig):
    sig["class"] = cls
    return {"class": cls, "detail": detail, "signature": sig, "owner": "C12"}


def run_overlap(case):
    """Two overlapping saves of one process, optional process death inside either."""
    cfg = case["cfg"]
    dw = diskutil.DiskWorld(cfg["version"], cfg["fmt"], bufsize=cfg["bufsize"], relpath=cfg.get("relpath"), sched=cfg["sched"],
                            max_steps=1_500_000, window=lambda code: code.co_name in SAVE_WINDOW)
    violations, probes, faults = [], {}, {}
    incomplete, key, sample, nontrivial = None, None, None, False
    try:
        try:
            fs = dw.fs
            sim = dw.world.sim
            gw = dw.gateway()
            dw.feed(gw, case["old"])
            status, exc = dw.save(gw)
            assert status == "ok", (status, exc)
            s_old = diskutil.proj(gw)
            fs.sync_all()
            dw.feed(gw, case["new"])
            s_mid = diskutil.proj(gw)
            gw.tasks.persistence.need_save = True
            dry = fs.clone()
            dw.use(dry)
            dry.arm({})
            status, exc = dw.save(gw)
            assert status == "ok", (status, exc)
            n_ops = len(dry.oplog)
            dw.use(fs)
            gw.tasks.persistence.need_save = True
            kind = cfg["kind"]
            n = int(cfg["point"] * n_ops)
            fs.die_on_crash = True
            fs.arm({n: kind} if kind != "none" else {})
            outcome = {}

            def saver(tag, lines):
                try:
                    for line in lines:
                        gw.logic(line)
                    gw.tasks.persistence.save_sensors()
                    outcome[tag] = "ok"
                except simfs.Crash:
                    outcome[tag] = "crash"
                except Exception as err:  # pylint: disable=broad-except
                    outcome[tag] = "error " + repr(err)

            th_a = sim.spawn(saver, "A", [], role="timer")
            th_b = sim.spawn(saver, "B", case["stale"], role="stopper")
            th_a.join()
            th_b.join()
            s_new = diskutil.proj(gw)
            fired = list(fs.fired)
            fs.disarm()
            crashed = "crash" in outcome.values()
            faults[kind] = 1
            probes["overlap_runs"] = 1
            if sim.preemptions:
                probes["overlap_preempted"] = 1
            nontrivial = bool(sim.preemptions)
            key = f"overlap|{cfg['fmt']}|{kind}|{cfg['resolution'] if crashed else 'n/a'}|{sorted(outcome.values())}|{min(sim.preemptions, 6)}"
            sample = {"cfg": cfg, "outcome": outcome, "fired": fired, "preemptions": sim.preemptions,
                      "old_nodes": sorted(s_old), "mid_nodes": sorted(s_mid), "new_nodes": sorted(s_new)}
            if crashed:
                probes["crash_runs"] = 1
                if cfg["resolution"] == "strict":
                    after = fs.crash("strict")
                else:
                    mode = cfg["resolution"].split("-")[1]
                    keep = int(round(cfg["journal_frac"] * len(fs.journal)))
                    after = fs.crash("powerloss", journal_keep=keep, data_mode=mode, cut=cfg["cut"])
                    faults["powerloss_" + mode] = 1
                allowed = [("old", s_old), ("mid", s_mid), ("new", s_new)]
            else:
                after = fs.clone()
                allowed = [("mid", s_mid), ("new", s_new)]
                for tag, res in sorted(outcome.items()):
                    if res.startswith("error"):
                        probes["overlap_save_raised"] = 1
            fs.dead = False
            dw.use(after)
            gw_b = dw.gateway()
            err = dw.load(gw_b)
            got = diskutil.proj(gw_b)
            where = {"when": "overlapping saves", "outcome": outcome, "fired": fired, "fmt": cfg["fmt"], "resolution": cfg["resolution"],
                     "files": {p.split("/")[-1]: len(d) for p, d in after.listing().items()}}
            if err is not None:
                violations.append(_vio("load-raised", dict(where, exc=repr(err)), exc=type(err).__name__, when="overlap"))
            else:
                hit = next((name for name, state in allowed if got == state), None)
                if hit is None:
                    cls = "loaded-empty" if not got else "loaded-partial-or-mixed"
                    violations.append(_vio(cls, dict(where, got_nodes=sorted(got), allowed={name: sorted(st) for name, st in allowed}), when="overlap"))
                else:
                    probes["loaded_" + ("new" if hit != "old" else "old")] = 1
        except kernel.SimAbort as exc:
            incomplete = str(exc)
        except kernel.Deadlock as exc:
            incomplete = "deadlock " + str(exc)[:100]
    finally:
        sim = dw.world.sim
        digest = sim.digest()
        steps = sim.steps
        dw.close()
    digest = hashlib.sha256((digest + repr(key) + repr(sorted(probes))).encode()).hexdigest()
    return {"violations": violations, "digest": digest, "nontrivial": nontrivial, "key": key, "probes": probes, "faults": faults,
            "steps": steps, "sim_seconds": 0.0, "incomplete": incomplete, "sample": sample, "states": [], "extra": {"tuples": [key] if key else []}}


def run(case):
    cfg = case["cfg"]
    if cfg.get("mode") == "overlap":
        return run_overlap(case)
    dw = diskutil.DiskWorld(cfg["version"], cfg["fmt"], bufsize=cfg["bufsize"], relpath=cfg.get("relpath"))
    violations, probes, faults = [], {}, {}
    incomplete = None
    key = None
    nontrivial = False
    sample = None
    try:
        try:
            path = dw.abspath
            tmp = path[: -len(cfg["fmt"]) - 1] + ".tmp." + cfg["fmt"]
            bak = path + ".bak"
            fs = dw.fs
            # ---- prior on-disk configuration -----------------------------------------
            s_old = {}
            gw_a = dw.gateway()
            if cfg["prior"] != "none":
                if "bak" in cfg["prior"] or "tmp" in cfg["prior"]:
                    gw_s = dw.gateway()
                    dw.feed(gw_s, case["stale"])
                    scratch = simfs.SimFS()
                    dw.use(scratch)
                    dw.save(gw_s)
                    stale_bytes = scratch.get(path)
                    dw.use(fs)
                dw.feed(gw_a, case["old"])
                status, exc = dw.save(gw_a)
                if status != "ok":
                    raise _PlainSaveFailed("saving the old state (no fault injected)", status, exc)
                s_old = diskutil.proj(gw_a)
                # the stale files are put next to the good file AFTER it was written (whatever the save of the old state
                # does with left-overs it finds must not decide whether the prior configuration exists)
                if "bak" in cfg["prior"]:
                    fs.put(bak, stale_bytes)
                if "tmp" in cfg["prior"]:
                    # left behind by an earlier interrupted save: a torn short one, or a complete
                    # file of a (then) larger state
                    if cfg.get("long_tmp"):
                        fs.put(tmp, stale_bytes + stale_bytes[len(stale_bytes) // 3:] * 3)
                    else:
                        fs.put(tmp, stale_bytes[: max(1, len(stale_bytes) // 2)])
                fs.sync_all()
            else:
                gw_a.tasks.persistence.need_save = False
            if cfg.get("symlink"):
                # the configured file is a symbolic link into another directory (a common container set-up):
                # its content lives in /data, tmp and backup names are derived from the configured path
                target = "/data/" + path.rsplit("/", 1)[1]
                if path in fs.files:
                    fs.put(target, fs.get(path))
                    fs.files.pop(path)
                    fs.durable_files.pop(path, None)
                else:
                    fs.mkdir("/data")
                fs.symlink(target, path)
                fs.sync_all()
                probes["symlinked_file"] = 1
            # ---- new state --------------------------------------------------------------
            dw.feed(gw_a, case["new"])
            s_new = diskutil.proj(gw_a)
            gw_a.tasks.persistence.need_save = True
            # dry run on a clone to number the operations of this save
            dry = fs.clone()
            dw.use(dry)
            dry.arm({})
            status, exc = dw.save(gw_a)
            if status != "ok":
                raise _PlainSaveFailed(f"saving the new state on prior configuration {cfg['prior']!r} (no fault injected)", status, exc)
            oplog = list(dry.oplog)
            dw.use(fs)
            gw_a.tasks.persistence.need_save = True
            # stratified: first the operation kind (so the two renames and the remove are as
            # likely as the hundreds of buffered writes), then the occurrence
            names = sorted({o[1] for o in oplog})
            name = names[min(len(names) - 1, int(cfg["point"] * len(names)))]
            cands = [o[0] for o in oplog if o[1] == name]
            n = cands[min(len(cands) - 1, int(cfg.get("point2", 0.0) * len(cands)))]
            opname = oplog[n][1]
            occurrence = sum(1 for o in oplog[: n + 1] if o[1] == opname)
            kind = cfg["kind"]
            if kind in ("EIO", "ENOSPC", "EACCES", "ETIMEDOUT", "NOMEM") and opname not in simfs.FAULT_OPS:
                kind = "crash_before"
            fs.arm({n: kind})
            status, exc = dw.save(gw_a)
            fired = list(fs.fired)
            fs.disarm()
            faults[kind] = 1
            first_write = next((i for i, o in enumerate(oplog) if o[1] in ("write", "flush", "close")), len(oplog))
            last_dirop = max((i for i, o in enumerate(oplog) if o[1] in ("rename", "remove")), default=len(oplog))
            nontrivial = first_write <= n <= last_dirop
            resolution = cfg["resolution"] if status == "crash" else "n/a"
            key = f"{cfg['fmt']}|{cfg['prior']}{'+symlink' if cfg.get('symlink') else ''}|{opname}#{min(occurrence, 4)}|{kind}|{resolution}"
            sample = {"cfg": cfg, "oplog": [f"{o[1]}:{o[2].split('/')[-1]}" for o in oplog][:40], "fault_at": n, "op": opname,
                      "kind": kind, "save_status": status, "old_nodes": sorted(s_old), "new_nodes": sorted(s_new)}
            if not fired:
                probes["fault_not_fired"] = 1
            if status == "crash":
                probes["crash_runs"] = 1
                if cfg["resolution"] == "strict":
                    after = fs.crash("strict")
                else:
                    mode = cfg["resolution"].split("-")[1]
                    keep = int(round(cfg["journal_frac"] * len(fs.journal)))
                    probes["journal_len_%d" % min(len(fs.journal), 4)] = 1
                    after = fs.crash("powerloss", journal_keep=keep, data_mode=mode, cut=cfg["cut"])
                    faults["powerloss_" + mode] = 1
                _check_load(dw, after, s_old, s_new, violations, probes, "after crash", cfg, opname, kind)
            else:
                probes["failed_op_runs" if status == "error" else "fault_swallowed_or_late"] = 1
                if status == "ok" and kind not in ("crash_before", "crash_after"):
                    probes["save_reported_ok_despite_fault"] = 1
                clone = fs.clone()
                _check_load(dw, clone, s_old, s_new, violations, probes, "after failed operation", cfg, opname, kind)
                if cfg["resolution"] != "strict" and not violations:
                    # ... and when the machine then loses power before anything else is written: what the failed save left
                    # un-synced is gone (or torn), and the start-up load must still give a complete old or new state
                    mode = cfg["resolution"].split("-")[1]
                    keep = int(round(cfg["journal_frac"] * len(fs.journal)))
                    lost = fs.crash("powerloss", journal_keep=keep, data_mode=mode, cut=cfg["cut"])
                    faults["powerloss_after_failed_op_" + mode] = 1
                    probes["powerloss_after_failed_op"] = 1
                    _check_load(dw, lost, s_old, s_new, violations, probes, "after failed operation and power loss", cfg, opname, kind)
                if status == "error" and cfg.get("second_crash") and not violations:
                    # the process lives on after the failed operation, and its NEXT save is the one that is interrupted (process
                    # death or power loss at a drawn operation of that save): still a complete old or new state afterwards
                    numbering = fs.clone()
                    dw.use(numbering)
                    numbering.arm({})
                    gw_a.tasks.persistence.need_save = True
                    st_dry, _exc = dw.save(gw_a)
                    oplog2 = list(numbering.oplog)
                    if st_dry == "ok" and oplog2:
                        second = fs.clone()
                        dw.use(second)
                        gw_a.tasks.persistence.need_save = True
                        names2 = sorted({o[1] for o in oplog2})
                        name2 = names2[min(len(names2) - 1, int(cfg["second_crash"]["point"] * len(names2)))]
                        cands2 = [o[0] for o in oplog2 if o[1] == name2]
                        n2 = cands2[min(len(cands2) - 1, int(cfg["second_crash"]["point2"] * len(cands2)))]
                        second.arm({n2: cfg["second_crash"]["kind"]})
                        st2, _exc = dw.save(gw_a)
                        second.disarm()
                        if st2 == "crash":
                            probes["crash_in_save_after_failed_op"] = 1
                            faults["crash in the save after a failed one"] = 1
                            if cfg["resolution"] == "strict":
                                after2 = second.crash("strict")
                            else:
                                keep2 = int(round(cfg["journal_frac"] * len(second.journal)))
                                after2 = second.crash("powerloss", journal_keep=keep2, data_mode=cfg["resolution"].split("-")[1], cut=cfg["cut"])
                            _check_load(dw, after2, s_old, s_new, violations, probes, f"after failed operation and a crash at {name2} of the next save",
                                        cfg, opname, kind)
                    gw_a.tasks.persistence.need_save = True
                # the original process: one more save must complete and persist the current state
                dw.use(fs)
                status2, exc2 = dw.save(gw_a)
                if status2 != "ok":
                    violations.append(_vio("next-save-failed", {"exc": repr(exc2), "after": f"{kind} at {opname}#{occurrence}"},
                                           op=opname, kind=kind))
                else:
                    clone2 = fs.clone()
                    dw.use(clone2)
                    gw_c = dw.gateway()
                    err = dw.load(gw_c)
                    if err is not None or diskutil.proj(gw_c) != s_new:
                        violations.append(_vio("next-save-did-not-persist",
                                               {"exc": repr(err), "after": f"{kind} at {opname}#{occurrence}", "first_save_status": status,
                                                "loaded_nodes": sorted(diskutil.proj(gw_c)), "want_nodes": sorted(s_new)},
                                               op=opname, kind=kind))
        except _PlainSaveFailed as exc:
            # "and the next save succeeds": a save on one of the prior configurations fails although nothing was injected
            violations.append(_vio("next-save-failed", {"when": exc.args[0], "status": exc.args[1], "exc": repr(exc.args[2]), "prior": cfg.get("prior")},
                                   op="none", kind="none"))
        except kernel.SimAbort as exc:
            incomplete = str(exc)
    finally:
        sim = dw.world.sim
        digest = sim.digest()
        steps = sim.steps
        dw.close()
    digest = hashlib.sha256((digest + repr(key) + repr(sorted(probes))).encode()).hexdigest()
    return {"violations": violations, "digest": digest, "nontrivial": nontrivial, "key": key, "probes": probes, "faults": faults,
            "steps": steps, "sim_seconds": 0.0, "incomplete": incomplete, "sample": sample, "states": [], "extra": {"tuples": [key] if key else []}}


class _PlainSaveFailed(Exception):
    pass


def _check_load(dw, disk, s_old, s_new, violations, probes, when, cfg, opname, kind):
    dw.use(disk)
    gw_b = dw.gateway()
    err = dw.load(gw_b)
    got = diskutil.proj(gw_b)
    where = {"when": when, "op": opname, "kind": kind, "prior": cfg["prior"], "fmt": cfg["fmt"], "resolution": cfg["resolution"],
             "files": {p.split("/")[-1]: len(d) for p, d in disk.listing().items()}}
    if err is not None:
        violations.append(_vio("load-raised", dict(where, exc=repr(err)), exc=type(err).__name__, when=when))
        return
    if got == s_new:
        probes["loaded_new"] = probes.get("loaded_new", 0) + 1
    elif got == s_old:
        probes["loaded_old"] = probes.get("loaded_old", 0) + 1
    else:
        cls = "loaded-empty" if not got else "loaded-partial-or-mixed"
        violations.append(_vio(cls, dict(where, got_nodes=sorted(got), old_nodes=sorted(s_old), new_nodes=sorted(s_new)), when=when))
        return
    # a further save -> load round trip must work in the restarted process
    gw_b.logic("9;255;0;0;17;2.0")
    want = diskutil.proj(gw_b)
    status, exc = dw.save(gw_b)
    if status != "ok":
        violations.append(_vio("post-recovery-save-failed", dict(where, exc=repr(exc)), when=when))
        return
    gw_c = dw.gateway()
    err = dw.load(gw_c)
    if err is not None or diskutil.proj(gw_c) != want:
        violations.append(_vio("post-recovery-roundtrip", dict(where, exc=repr(err)), when=when))


def coverage_post(cov):
    tuples = cov.pop("tuples", [])
    cov["tuples_covered"] = len(tuples)
    cov["tuple_space_note"] = ("2 formats x 5 priors x (op kind, occurrence capped at 4) x 5 fault kinds x resolutions "
                               "(5 for crashes, n/a for failed operations)")
    cov["tuples_sample"] = tuples[:25]


def shrinkers(case):
    for field in ("old", "new", "stale"):
        lines = case[field]
        if len(lines) > 1:
            half = dict(case)
            half[field] = lines[: len(lines) // 2]
            yield half
            half = dict(case)
            half[field] = lines[len(lines) // 2:]
            yield half
        for i in range(len(lines)):
            if len(lines) > 1:
                cand = dict(case)
                cand[field] = lines[:i] + lines[i + 1:]
                yield cand
