"""C07 - nothing is sent to a sleeping node outside its wake window."""
from checks import netcheck, netgen

ID = "C07"
LEVEL = "exploration"
OWN = {"C07"}
RULE = ("seeded smart-sleep histories for gateway versions 2.0-2.2 with sleepy and awake nodes and every producer of outbound traffic "
        "(value/config/time/id requests, sets while a reboot is pending, messages for unknown children, controller set-value calls, "
        "wake-ups, stream requests as the stated exception); lines from several nodes arrive in multi-line chunks so that several jobs "
        "are queued before the pump runs, under serial, random-walk and PCT reader/pump schedules (threaded) and on the asyncio loop. "
        "Every write is attributed to the line being processed by begin-markers in the device log; per sleeping node all non-stream "
        "lines addressed to it must be exactly the model's bursts, each written while its wake-up is being processed; replies to awake "
        "nodes must be written before the next line is processed; a line of one node never releases traffic for another node that is "
        "asleep; in 30% of the threaded runs the link breaks (write error) under one wake-up burst: what was due is lost with the link and "
        "nothing may be written on the new link until a line asks for it. non-trivial = a reply was withheld, a wake-up released one, and another "
        "node was served inside a multi-line chunk; distinct = distinct run digests")
TIERS = {
    "quick": {"runs": 3000, "max_wall": 240, "minimise_s": 25, "chunk": 50},
    "thorough": {"runs": 120000, "max_wall": 3000, "minimise_s": 60, "chunk": 200},
}
FAULT_KINDS = ["multi-line chunks (several queued jobs)", "reader/pump pre-emption", "raising event callback", "scheduled saves while nodes sleep (persistence on)",
               "write error under the burst of a wake-up, link re-dialled (threaded serial/TCP)"]
REAL, STUBS = netcheck.REAL, netcheck.STUBS
ASSUMPTIONS = ["tier-B classification of garbage lines uses the repo's own decoder/validator (consequences only)",
               "attribution of writes to lines uses begin-markers placed by a harness-side wrapper of gateway.logic (instance attribute)"]
REQUIRED_PROBES = ["reply_held", "burst_with_held", "multi_line_chunks", "reply_inside_chunk", "desired_stored"]
WEIGHTS = {"heartbeat": 14, "presleep": 14, "ctl_set": 10, "value": 14, "req": 16, "present_child": 9, "present_node": 6,
           "config": 8, "time": 5, "ctl_fw": 3, "stream_cfg": 3, "stream_blk": 3, "stream_bad": 1, "idreq": 3, "garbage": 1,
           "invalid_frame": 1, "unknown_traffic": 6, "internal_other": 1, "battery": 2}
FLAVOURS = ["serial", "tcp", "aserial", "atcp"]


def gen(rng, tier, index):
    cfg = netgen.base_cfg(rng, FLAVOURS, versions=["2.0", "2.1", "2.2"])
    if rng.random() < 0.08:
        cfg["cb_raise"] = sorted(rng.sample(range(60), 10))
    if cfg["flavour"] in ("serial", "tcp") and rng.random() < 0.5:
        policy = rng.choice(["rw", "pct"])
        cfg["sched"] = {"policy": policy, "seed": rng.getrandbits(32)}
        if policy == "rw":
            cfg["sched"]["p"] = rng.choice([0.002, 0.01, 0.04])
        else:
            cfg["sched"]["k"] = rng.choice([1, 2, 3])
            cfg["sched"]["horizon"] = rng.choice([1000, 5000, 20000])
        cfg["max_steps"] = 1_500_000
    weights = dict(WEIGHTS)
    if rng.random() < 0.3:
        # persistence on (scheduled saves come and go while nodes sleep): saving must not disturb the hold-back state
        cfg["persistence"] = rng.choice(["pickle", "pickle", "json"])
        weights["advance"] = 8
        if rng.random() < 0.6:
            weights["restart"] = 3  # ... and the controller is restarted now and then: restored nodes sleep and wake like fresh ones
    ops = netgen.make_ops(rng, cfg["version"], rng.randint(15, 60 if tier == "thorough" else 45), weights, nodes=(2, 4), scenario=0.4)
    if cfg["flavour"] in ("serial", "tcp") and cfg.get("sched") and rng.random() < 0.5:
        # controller calls for a sleeping node made from a second thread WHILE that node's wake-up is being handled (with another
        # node's line queued right behind it)
        ops = netgen.add_races(rng, cfg["version"], ops, "set")
        if rng.random() < 0.5:
            cfg["window"] = ["init_smart_sleep_mode", "set_child_value", "handle_smartsleep", "_route_message", "set_child_desired_state",
                             "is_smart_sleep_node", "handle_heartbeat_response", "handle_pre_sleep_notification"]
            cfg["sched"] = {"policy": "rw", "seed": rng.getrandbits(32), "p": rng.choice([0.1, 0.25, 0.5])}
    ops = netgen.chunkify(rng, ops)
    if cfg["flavour"] in ("serial", "tcp") and rng.random() < 0.3:
        ops = _with_linkdrop(rng, ops)
    return {"cfg": cfg, "ops": ops}


def _is_wake(text):
    parts = text.split(";")
    return len(parts) == 6 and parts[2] == "3" and parts[4] in ("22", "32")


def _with_linkdrop(rng, ops):
    """The link breaks under the burst of one wake-up (write error): what was withheld is lost with the
    link and must not leave the gateway later, outside a wake window, once the link is back."""
    out, spots = [], []
    for op in ops:
        if op[0] == "line" and len(op) == 2 and _is_wake(op[1]):
            spots.append(len(out))
            out.append(op)
        elif op[0] == "chunk" and any(_is_wake(it[0]) and (len(it) < 2 or it[1] == "\n") for it in op[1]):
            k = next(i for i, it in enumerate(op[1]) if _is_wake(it[0]) and (len(it) < 2 or it[1] == "\n"))
            if op[1][:k]:
                out.append(["chunk", op[1][:k]])
            spots.append(len(out))
            out.append(["line", op[1][k][0]])
            if op[1][k + 1:]:
                out.append(["chunk", op[1][k + 1:]])
        else:
            out.append(op)
    late = [i for i in spots if i >= len(out) // 3]
    if late:
        out.insert(rng.choice(late), ["linkdrop"])
    return out


def _nontrivial(probes, run_):
    return bool(probes.get("reply_held") and probes.get("burst_with_held") and probes.get("reply_inside_chunk"))


def run(case):
    return netcheck.run_net(case, OWN, _nontrivial)
