"""C11 - persistence round trip is exact in both formats."""
import copy
import hashlib

from model import tables
from checks import netcheck, netgen, netsim

ID = "C11"
LEVEL = "exploration"
OWN = {"C11"}
RULE = ("one simulated history (Unicode payloads incl. astral characters, quotes, backslashes, NUL, long strings; nodes created by id "
        "request only; children without values; ids 0 and 255; transient smart-sleep/reboot state made non-empty) is executed twice - "
        "persistence file .pickle and .json - each followed by two clean stop/restart rounds on the simulated disk and some post-restart "
        "traffic. Oracle: projection after each load == projection before the stop == reference model (integer keys included); both "
        "formats restore the same state; no node has held replies, desired values or a reboot flag after a load; the lock-step model "
        "(which forgets transient state at a restart) must keep matching. non-trivial = state with >=2 nodes, a node without type, a "
        "child without values, a non-ASCII payload and non-empty transient state at stop; distinct = distinct final model states")
TIERS = {
    "quick": {"runs": 2000, "max_wall": 240, "minimise_s": 25, "chunk": 50},
    "thorough": {"runs": 50000, "max_wall": 3000, "minimise_s": 60, "chunk": 200},
}
FAULT_KINDS = ["clean stop/restart x2", "format pickle vs json (differential pair)"]
REAL, STUBS, ASSUMPTIONS = netcheck.REAL, netcheck.STUBS, netcheck.ASSUMPTIONS
REQUIRED_PROBES = ["restarts_with_persistence", "transient_nonempty_at_stop"]
WEIGHTS = {"present_node": 9, "present_child": 12, "value": 16, "battery": 4, "sketch": 8, "heartbeat": 8, "presleep": 6, "idreq": 6,
           "adopt": 1, "ctl_set": 8, "ctl_fw": 4, "req": 6, "config": 1, "time": 1, "stream_cfg": 1, "stream_blk": 0, "stream_bad": 0,
           "garbage": 1, "invalid_frame": 1, "unknown_traffic": 2, "advance": 2}
FLAVOURS = ["serial", "tcp", "aserial", "atcp", "mqtt", "amqtt"]


def gen(rng, tier, index):
    cfg = netgen.base_cfg(rng, FLAVOURS, persistence=["pickle"])
    cfg["force_dirty"] = True
    if rng.random() < 0.25:
        # "saving" as the application sees it: the library decides by its own not-saved mark whether stop() writes at all
        # (the other runs set the mark by hand so that serialisation is judged on its own)
        cfg["force_dirty"] = False
        cfg["roundtrip_view"] = True
    if rng.random() < 0.3:
        # the order in which the loop, its executor threads (load, scheduled save) and the timer thread get to run at
        # start-up and around a save is the scheduler's call, not always "first come first served"
        cfg["sched"] = {"policy": "rw", "seed": rng.getrandbits(32), "p": rng.choice([0.0, 0.01, 0.05])}
        cfg["max_steps"] = 1_500_000
    if rng.random() < 0.15:
        cfg["no_callback"] = True
    if cfg["flavour"] in ("mqtt", "amqtt"):
        cfg["in_prefix"] = rng.choice(["", "gw-out"])
        cfg["out_prefix"] = rng.choice(["", "gw-in"])
    ops = netgen.make_ops(rng, cfg["version"], rng.randint(10, 45), WEIGHTS, nodes=(2, 4), scenario=0.4)
    # the two ends of the id range (the gateway's own node 0, broadcast id 255) are part of the quantifier
    edge = []
    if rng.random() < 0.5:
        edge += [["line", f"0;255;0;0;18;{rng.choice(['1.5', '2.0', '2.2.0'])}"], ["line", f"0;{rng.choice([0, 1, 254])};0;0;6;gw temp"],
                 ["line", "0;255;3;0;11;Gateway"]]
    if rng.random() < 0.3:
        edge += [["line", "255;255;0;0;17;2.1"], ["line", "255;0;0;0;3;x"]]
    if rng.random() < 0.3:
        # strings with lone surrogates: what a client that decodes non-UTF-8 bytes with "surrogateescape" hands
        # to an MQTT gateway (a byte link turns them into U+FFFD) - accepted messages, so part of the state
        sur = rng.choice(["caf\udce9", "\udcff", "a\udc80b"])
        edge += [["line", "77;255;0;0;17;2.0"], ["line", f"77;1;0;0;6;{sur}"], ["line", f"77;255;3;0;11;{sur}"]]
        if tables.payload_rule(cfg["version"], 1, 0) == "text":
            edge += [["line", f"77;1;1;0;0;{sur}"]]
    pos = rng.randrange(0, len(ops) + 1)
    ops[pos:pos] = edge
    ops.append(["restart"])
    ops.extend(netgen.make_ops(rng, cfg["version"], rng.randint(2, 8), WEIGHTS, nodes=(1, 2)))
    if cfg.get("roundtrip_view") and rng.random() < 0.6:
        # the last accepted update before the stop is one of the rarer kinds (the file must still hold it): a value from a node
        # that has a reboot request pending, a known child presented again with another description, a battery report
        kids = []
        for op in ops:
            if op[0] == "line":
                f = tables.parse_canonical(op[1])
                if f is not None and f[2] == 0 and f[1] != 255 and 0 < f[0] < 255 and tables.valid_frame(cfg["version"], *f) is True:
                    kids.append((f[0], f[1], f[4]))
        if kids:
            nid, cid, sub = rng.choice(kids)
            ops.append(["advance", 10.3])
            what = rng.randrange(3)
            if what == 0:
                ops.append(["fw", [nid], 10, 1, bytes(rng.randrange(256) for _ in range(32)).hex(), "bin"])
                ops.append(["line", f"{nid};{cid};1;0;24;v{rng.randrange(1000)}"])
            elif what == 1:
                ops.append(["line", f"{nid};{cid};0;0;{sub};Température extérieure {rng.randrange(100)}"])
            else:
                ops.append(["line", f"{nid};255;3;0;0;{rng.randrange(101)}"])
    if rng.random() < 0.25:
        # the network keeps talking while the gateway stops: a presentation arrives at the moment the final save has been
        # written - if the gateway still accepts it then, it is part of the state it stopped with
        ops.append(["restart", {"late_line": f"{rng.choice([88, 89])};255;0;0;17;{rng.choice(['2.0', '1.5', 'x'])}"}])
    else:
        ops.append(["restart"])
    ops.extend(netgen.make_ops(rng, cfg["version"], rng.randint(1, 4), dict(WEIGHTS, req=30, value=20), nodes=(1, 1)))
    return {"cfg": cfg, "ops": ops}


def _without_clock(trace):
    """The trace with the payload of time replies blanked: what the clock says is not part of the state, and the two
    executions need not take the same simulated time (the formats write different numbers of buffers)."""
    out = []
    for entry in trace:
        if len(entry) >= 3 and isinstance(entry[2], list):
            lines = []
            for ln in entry[2]:
                parts = str(ln).split(";", 5)
                if len(parts) == 6 and parts[2] == "3" and parts[4] == "1":
                    parts[5] = "<time>"
                    ln = ";".join(parts)
                lines.append(ln)
            entry = (entry[0], entry[1], lines) + tuple(entry[3:])
        out.append(entry)
    return out


def run(case):
    results = {}
    finals = {}
    for fmt in ("pickle", "json"):
        sub = copy.deepcopy(case)
        sub["cfg"]["persistence"] = fmt
        res = netsim.run_case(sub, OWN)
        run_ = res.pop("run")
        results[fmt] = (res, run_)
        finals[fmt] = (run_.model.projection(), _without_clock(res["trace"]))
    res_p, run_p = results["pickle"]
    res_j, run_j = results["json"]
    violations = list(res_p["violations"]) + list(res_j["violations"])
    for v in res_p["violations"]:
        v.setdefault("signature", {})["format"] = "pickle"
    for v in res_j["violations"]:
        v.setdefault("signature", {})["format"] = "json"
    if not violations and not res_p.get("incomplete") and not res_j.get("incomplete"):
        if finals["pickle"] != finals["json"]:
            violations.append({"class": "format-divergence", "owner": "C11", "signature": {"class": "format-divergence"},
                               "detail": {"pickle_trace_tail": finals["pickle"][1][-5:], "json_trace_tail": finals["json"][1][-5:]}})
    probes = dict(res_p["probes"])
    for k, v in res_j["probes"].items():
        probes[k] = probes.get(k, 0) + v
    model = run_p.model
    nodes = model.nodes
    texts = [str(n["sketch_name"]) + str(n["sketch_version"]) + "".join(str(c["desc"]) + "".join(map(str, c["values"].values()))
                                                                         for c in n["children"].values()) for n in nodes.values()]
    nontrivial = (len(nodes) >= 2 and any(n["type"] is None for n in nodes.values())
                  and any(not c["values"] for n in nodes.values() for c in n["children"].values())
                  and any(ord(ch) > 127 for t in texts for ch in t) and probes.get("transient_nonempty_at_stop", 0) > 0)
    out = {"violations": violations, "probes": probes, "faults": {}, "steps": res_p["steps"] + res_j["steps"],
           "sim_seconds": res_p["sim_seconds"] + res_j["sim_seconds"], "incomplete": res_p.get("incomplete") or res_j.get("incomplete"),
           "digest": hashlib.sha256((res_p["digest"] + res_j["digest"]).encode()).hexdigest(), "nontrivial": nontrivial,
           "states": res_p["states"][-1:], "interleaving": None, "sched": None}
    out["key"] = (res_p["states"] or [out["digest"]])[-1]
    out["sample"] = {"cfg": {k: v for k, v in case["cfg"].items() if k != "sched"}, "n_ops": len(case["ops"]),
                     "ops_head": case["ops"][:14], "trace_tail": res_p["trace"][-6:]}
    out["extra"] = {"handler_kinds": res_p["kinds"]}
    return out
