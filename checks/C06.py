"""C06 - node ids are never handed out twice (also across clean restarts)."""
from checks import netcheck, netgen

ID = "C06"
LEVEL = "exploration"
OWN = {"C06"}
RULE = ("seeded histories mixing id requests (requesters adopt the id or vanish), presentations of arbitrary ids 0..255 (also 254/255), "
        "other traffic, simulated time advancing so that the 10 s save timer fires at drawn positions, and 1-3 clean stop/restart "
        "cycles on the same simulated disk (pickle/json; 25% of runs without persistence); history oracle over every id response: "
        "1..254, not known, never handed out before in this or - with persistence and clean stops - any earlier lifetime; "
        "non-trivial = an id was handed out, then a restart, then another id request; distinct = distinct run digests")
TIERS = {
    "quick": {"runs": 3000, "max_wall": 240, "minimise_s": 25, "chunk": 50},
    "thorough": {"runs": 100000, "max_wall": 3000, "minimise_s": 60, "chunk": 200},
}
FAULT_KINDS = ["save tick position", "clean stop/restart", "id space jump by presentation", "id request handled while a scheduled save is being written (pre-emptive schedule)",
               "transient read error at start-up (retried)", "restart immediately after stop() returned (no settling)", "top of the id space (251..254)",
               "stop() called from inside the event callback (on the poll thread) after an id was handed out"]
REAL, STUBS, ASSUMPTIONS = netcheck.REAL, netcheck.STUBS, netcheck.ASSUMPTIONS
REQUIRED_PROBES = ["ids_handed_out", "restarts_with_persistence", "id_space_exhausted"]
WEIGHTS = {"idreq": 22, "adopt": 6, "present_node": 10, "present_child": 4, "value": 5, "advance": 10, "restart": 5,
           "req": 1, "ctl_set": 1, "ctl_fw": 0, "stream_cfg": 0, "stream_blk": 0, "stream_bad": 0, "stream_other": 0,
           "garbage": 1, "invalid_frame": 1, "unknown_traffic": 1, "internal_other": 1,
           # smart-sleep traffic: replies and desired values parked for sleeping nodes are part of what a save has to cope with
           "heartbeat": 3, "presleep": 3, "config": 2, "time": 1, "ctl_set": 2}
FLAVOURS = ["serial", "tcp", "aserial", "atcp", "mqtt", "amqtt"]


def gen(rng, tier, index):
    cfg = netgen.base_cfg(rng, FLAVOURS, persistence=["pickle", "json", "pickle", None])
    if cfg["flavour"] in ("mqtt", "amqtt"):
        cfg["in_prefix"] = rng.choice(["", "gw-out"])
        cfg["out_prefix"] = rng.choice(["", "gw-in"])
    ops = netgen.make_ops(rng, cfg["version"], rng.randint(12, 50), WEIGHTS, nodes=(1, 3), scenario=0.2)
    if cfg["persistence"] and cfg["flavour"] not in ("mqtt", "amqtt") and rng.random() < 0.3:
        # an id request that arrives while a scheduled save is being written (pre-emptive schedule),
        # then a clean stop and restart, then another id request
        cfg["sched"] = {"policy": "rw", "seed": rng.getrandbits(32), "p": rng.choice([0.02, 0.08, 0.2])}
        cfg["max_steps"] = 1_500_000
        if rng.random() < 0.5:
            # pre-emption only inside the allocator and the save: makes the narrow windows there likely
            cfg["window"] = ["add_sensor", "_get_next_id", "handle_id_request", "_save_sensors", "save_sensors", "alert", "_save_json",
                             "_save_pickle", "__getstate__", "default"]
            cfg["sched"]["p"] = rng.choice([0.15, 0.3, 0.5])
        ops.append(["line", f"{rng.choice([5, 6, 7])};255;0;0;17;2.0"])
        how = rng.choice(["line_at_save", "line_at_tick", "line_at_tick"])
        if rng.random() < 0.6:
            # PCT-style: one or two forced switches inside the allocator only, everything else runs to its
            # next blocking point - the schedule that lets a whole save slip in between two lines of the allocator
            # (change points counted from the moment the line is put in flight; the save timer oversleeps to the
            # poll loop's next wake-up so that both really start at the same instant)
            cfg["window"] = rng.choice([["add_sensor"], ["add_sensor", "_get_next_id", "handle_id_request"]])
            cfg["sched"] = {"policy": "pct", "seed": rng.getrandbits(32), "k": rng.choice([1, 2]), "arm": True,
                            "horizon": 8 if len(cfg["window"]) == 1 else 18, "timer_slack": 0.02}
        if rng.random() < 0.3:
            # ... and the application stops the gateway while that save is still running
            ops.append(["advance", 10.2])
            ops.append(["line", f"{rng.choice([8, 9])};255;0;0;17;2.0"])
            ops.append(["stop_at_tick", {"line": "255;255;3;0;3;"}])
            if rng.random() < 0.6:
                cfg["slow_fsync"] = rng.choice([0.08, 0.2, 0.5])  # the save sits in fsync that long: no instant coincidence needed
        else:
            ops.append([how, "255;255;3;0;3;"])
            ops.append(["restart"])
        ops.append(["line", "255;255;3;0;3;"])
    if cfg["persistence"] and rng.random() < 0.1:
        cfg["no_callback"] = True
    if cfg["persistence"] and rng.random() < 0.2:
        # ids handed out, then one scheduled save fails with a transient error, no further change, clean stop
        ops.append(["line", "255;255;3;0;3;"])
        ops.append(["fault_tick", rng.choice(["write", "fsync", "rename", "rename2", "rename2", "remove"]), rng.choice(["EIO", "EACCES", "ENOSPC", "ETIMEDOUT", "NOMEM"])])
        ops.append(["restart"])
        ops.append(["line", "255;255;3;0;3;"])
    elif cfg["persistence"] and rng.random() < 0.15:
        # the restarted gateway hits a transient I/O error when it first reads the file; the application retries
        ops.append(["line", "255;255;3;0;3;"])
        ops.append(["restart", {"load_fault": rng.choice(["EIO", "EMFILE"])}])
        ops.append(["line", "255;255;3;0;3;"])
        ops.append(["restart"])
        ops.append(["line", "255;255;3;0;3;"])
    elif cfg["persistence"] and rng.random() < 0.2:
        # an id request arrives at the moment stop() has written its final save
        ops.append(["restart", {"late_line": "255;255;3;0;3;"}])
        ops.append(["line", "255;255;3;0;3;"])
    elif cfg["persistence"] and rng.random() < 0.12:
        # an id is handed out after the last scheduled save, and the application stops the gateway from inside the
        # event callback of the next message (threaded flavours: stop() runs on the poll thread); restart; id request
        ops.append(["advance", rng.choice([10.2, 10.5])])
        ops.append(["line", "255;255;3;0;3;"])
        ops.append(["stop_from_callback", rng.choice(["{n};255;3;0;11;bye", f"{rng.choice([82, 83])};255;0;0;17;2.0"])])
        ops.append(["line", "255;255;3;0;3;"])
    if "restart" not in [o[0] for o in ops]:
        ops.insert(rng.randrange(len(ops) // 2, len(ops)), ["restart"])
        ops.append(["line", "255;255;3;0;3;"])
    for op in ops:
        if op[0] == "restart" and len(op) == 1 and rng.random() < 0.3:
            op.append({"immediate": True})
    return {"cfg": cfg, "ops": ops}


def _nontrivial(probes, run_):
    kinds = [t[0] for t in run_.trace]
    if "restart" not in kinds or not probes.get("ids_handed_out"):
        return False
    first_restart = kinds.index("restart")
    before = any(t[0] == "ok" and ";3;" in t[1] and t[1].split(";")[4:5] == ["3"] for t in run_.trace[:first_restart])
    after = any(t[0] == "ok" and t[1].split(";")[4:5] == ["3"] and t[1].split(";")[2:3] == ["3"] for t in run_.trace[first_restart:])
    return before and after


def run(case):
    return netcheck.run_net(case, OWN | {"C14"} if False else OWN, _nontrivial)
