"""C04 - network state mirrors what the nodes reported; callbacks are exact."""
from checks import netcheck, netgen

ID = "C04"
LEVEL = "exploration"
OWN = {"C04"}
RULE = ("seeded histories of mostly valid traffic from 1-4 simulated nodes (presentations incl. repeated ones, values before "
        "presentation, attribute messages, id requests, controller calls) against the real gateway (all six flavours, all versions); "
        "lock-step comparison of the node/child/value tree with the reference model after every step, callback count/arguments and "
        "the state visible inside the callback; 12% of runs install a raising callback; non-trivial = >=2 nodes, >=1 repeated "
        "presentation, >=1 message for an unknown node/child; distinct = distinct final model states")
TIERS = {
    "quick": {"runs": 4000, "max_wall": 240, "minimise_s": 25, "chunk": 50},
    "thorough": {"runs": 150000, "max_wall": 3000, "minimise_s": 60, "chunk": 200},
}
FAULT_KINDS = ["raising event callback", "invalid frames interleaved", "raising publish callback", "backlog: 257-520 lines in one chunk"]
REAL, STUBS, ASSUMPTIONS = netcheck.REAL, netcheck.STUBS, netcheck.ASSUMPTIONS
REQUIRED_PROBES = ["accepted_lines", "rejected_lines"]
WEIGHTS = {"present_node": 10, "present_child": 14, "value": 18, "battery": 5, "sketch": 5, "heartbeat": 5, "presleep": 5, "unknown_traffic": 6,
           "invalid_frame": 3, "garbage": 1, "stream_bad": 0, "ctl_fw": 1, "idreq": 4, "adopt": 2}
FLAVOURS = ["serial", "tcp", "aserial", "atcp", "mqtt", "amqtt"]


def gen(rng, tier, index):
    cfg = netgen.base_cfg(rng, FLAVOURS)
    if rng.random() < 0.12:
        cfg["cb_raise"] = sorted(rng.sample(range(60), 10))
    if cfg["flavour"] in ("mqtt", "amqtt"):
        cfg["in_prefix"] = rng.choice(["", "gw-out"])
        cfg["out_prefix"] = rng.choice(["", "gw-in"])
    ops = netgen.make_ops(rng, cfg["version"], rng.randint(10, 60 if tier == "thorough" else 45), WEIGHTS, nodes=(1, 4), scenario=0.15)
    if cfg["flavour"] in ("serial", "tcp") and rng.random() < 0.25:
        # several lines per chunk and a pre-emptive reader/pump schedule: lines may be framed and
        # queued while the pump is in the middle of a job
        cfg["sched"] = {"policy": "rw", "seed": rng.getrandbits(32), "p": rng.choice([0.01, 0.04, 0.15])}
        cfg["max_steps"] = 1_500_000
        ops = netgen.chunkify(rng, ops, max_lines=6, p_join=0.8)
    if cfg["flavour"] in ("serial", "tcp", "aserial", "atcp") and rng.random() < 0.03:
        # a backlog: the gateway device dumps several hundred lines at once (it buffered while the host was busy); the reader
        # frames and queues all of them before the pump gets to the first - every accepted one is in the tree afterwards
        nid = rng.choice([60, 61])
        n_lines = rng.choice([257, 300, 520])
        big = [[f"{nid};255;0;0;17;2.0", "\n"]]
        for k in range(n_lines):
            cid = k % 120
            big.append([f"{nid};{cid};0;0;6;c{k}" if k < 120 else f"{nid};{cid};1;0;0;{k}", "\n"])
        ops.insert(rng.randrange(len(ops) // 2, len(ops) + 1), ["chunk", big])
        cfg["max_steps"] = 3_000_000
    return {"cfg": cfg, "ops": ops}


def _nontrivial(probes, run_):
    kinds = run_.kinds
    return (len(run_.model.nodes) >= 2 and "child-re-presentation" in kinds
            and bool({"set-unknown", "req-unknown", "stream-unknown"} & kinds or probes.get("rejected_lines")))


def run(case):
    return netcheck.run_net(case, OWN, _nontrivial, key=lambda res, r: (res["states"] or [res["digest"]])[-1])
