"""C09 - OTA serves exactly the firmware it advertised (bootloader peers over a lossy link)."""
import hashlib
import random

from model.ota_model import crc16_modbus, intel_hex, le16, unle16
from sim import fs as simfs
from sim import kernel
from sim import world as W

ID = "C09"
LEVEL = "exploration"
RULE = ("1-3 firmware images (lengths biased to 16- and 128-byte boundaries, random / all-0xFF / all-0x00 contents, type and version from "
        "{0,1,255,256,65535,random}) delivered as bytes or as an Intel-HEX file written to SimFS by the harness's own HEX writer and "
        "loaded through update_fw(fw_path=...); 1-3 simulated MYSBootloader peers update concurrently over a link that drops, "
        "duplicates and delays requests and responses (peers re-request after their timeout on the simulated clock), block order "
        "descending / ascending / random with repetition. Oracle at the peer: the config response advertises (type, version, B, C); "
        "every copy of every block 0..B-1 is identical and echoes type, version and index; the blocks concatenate to image + 0xFF*k "
        "(0<=k<=128), 16*B bytes, a multiple of 128, with the peer's own bitwise CRC-16/MODBUS == C; once link faults stop every "
        "scheduled node finishes within a bound proportional to B. A HEX file with a bad checksum must not start a session. "
        "non-trivial = a complete transfer with >=1 retransmission or >=2 nodes interleaved; distinct = distinct run digests")
TIERS = {
    "quick": {"runs": 700, "max_wall": 240, "minimise_s": 25, "chunk": 20},
    "thorough": {"runs": 30000, "max_wall": 3000, "minimise_s": 60, "chunk": 50},
}
FAULT_KINDS = ["stray block request for firmware that is not loaded in the middle of a download", "request dropped", "response dropped", "duplicated frame", "delayed frame (reordering across nodes)", "corrupt HEX file", "sparse HEX file (address gap = 0xFF), non-zero base address"]
REAL = ["mysensors.ota (prepare_fw, respond_fw, respond_fw_config, load_fw, make_update)", "mysensors.task.update_fw (sync + asyncio executor)",
        "crcmod, intelhex", "pump / reader / handlers"]
STUBS = ["radio link and bootloader nodes (simulated peers)", "serial port / socket / asyncio transports", "disk (SimFS)", "clock"]
ASSUMPTIONS = ["the peers' CRC is an independent bitwise CRC-16/MODBUS; the HEX writer is independent of intelhex",
               "images up to 2 KiB in the quick tier; the thorough tier adds images up to 32 KiB in 4% of runs"]
REQUIRED_PROBES = ["transfers_completed", "retransmissions", "nodes_interleaved", "hex_loaded", "history_block_responses"]

LENGTHS = [1, 15, 16, 17, 127, 128, 129, 255, 256, 257, 383, 384, 385, 1023, 1024, 1025, 2047, 2048]
BIG = [4095, 4096, 8191, 16384, 30720, 30721, 32767, 32768]


HISTORY_WEIGHTS = {"ctl_fw": 16, "stream_cfg": 16, "stream_blk": 30, "stream_bad": 3, "stream_other": 1, "value": 4, "present_node": 8,
                   "present_child": 3, "req": 1, "heartbeat": 1, "presleep": 1, "ctl_set": 1, "garbage": 0, "invalid_frame": 0,
                   "unknown_traffic": 1, "idreq": 0, "internal_other": 0, "battery": 0, "sketch": 0, "config": 0, "time": 0,
                   "gwready": 0, "discover_resp": 0, "metric": 0, "advance": 0}


def gen(rng, tier, index):
    if rng.random() < 0.3:
        # history mode: the shared lock-step harness with several firmwares loaded, sessions re-assigned in the
        # middle of a download and late requests for the firmware of the superseded session
        from checks import netgen  # pylint: disable=import-outside-toplevel
        cfg = netgen.base_cfg(rng, ["serial", "tcp", "aserial", "atcp", "mqtt", "amqtt"])
        if cfg["flavour"] in ("mqtt", "amqtt"):
            cfg["in_prefix"], cfg["out_prefix"] = "gw-out", "gw-in"
        cfg["hex_record_len"] = rng.choice([1, 7, 16, 32])
        ops = netgen.make_ops(rng, cfg["version"], rng.randint(20, 60), HISTORY_WEIGHTS, nodes=(1, 3), image_max=400)
        return {"cfg": dict(cfg, mode="history"), "ops": ops}
    flavour = rng.choice(["serial", "tcp", "aserial", "atcp"])
    if rng.random() < 0.05:
        ln = rng.choice([16, 100, 300, 1000])
        return {"cfg": {"mode": "crowd", "flavour": flavour, "version": rng.choice(["1.4", "2.0", "2.2"]), "n_nodes": rng.choice([40, 110, 140, 200]),
                        "image": bytes(rng.randrange(256) for _ in range(ln)).hex(), "blk": rng.randrange(64)}, "ops": []}
    images = []
    for _ in range(rng.randint(1, 3)):
        if rng.random() < (0.04 if tier == "thorough" else 0.025):
            ln = rng.choice(BIG)  # the top of the size range (the 16-bit block counter's limit is 32768 bytes)
        elif rng.random() < 0.75:
            ln = rng.choice(LENGTHS)
        else:
            ln = rng.randint(1, 2048)
        fill = rng.randrange(5)
        if fill == 0:
            data = bytes([0xFF]) * ln
        elif fill == 1:
            data = bytes(ln)
        else:
            data = bytes(rng.randrange(256) for _ in range(ln))
        record_len = rng.choice([1, 7, 16, 32])
        gap = None
        n_rec = (ln + record_len - 1) // record_len
        if n_rec >= 3 and rng.random() < 0.25:
            # a sparse HEX file: some records in the middle are absent; the bytes of an address gap are
            # erased flash (0xFF) - the image is made to hold 0xFF there, so file and image agree
            first = rng.randrange(1, n_rec - 1)
            last = rng.randrange(first + 1, n_rec)
            gap = [first * record_len, last * record_len]
            data = data[:gap[0]] + bytes([0xFF]) * (gap[1] - gap[0]) + data[gap[1]:]
        images.append({"type": rng.choice([0, 1, 255, 256, 65535, rng.randrange(65536)]), "ver": rng.choice([0, 1, 2, 65535, rng.randrange(65536)]),
                       "data": data.hex(), "via": rng.choice(["bin", "bin", "hex"]), "record_len": record_len,
                       "ela": rng.random() < 0.3, "corrupt": rng.random() < 0.08, "gap": gap,
                       "base": rng.choice([0, 0, 0, 0x100, 0x7000]) if ln <= 0x8000 else 0})
    nodes = rng.sample([1, 2, 3, 42, 200, 254], rng.randint(1, 3))
    extra_cfg = {}
    if len(images) >= 2 and rng.random() < 0.3:
        extra_cfg["late_image"] = rng.randrange(len(images))
        extra_cfg["late_at"] = rng.choice([0.05, 0.4, 1.0, 2.5])
    if rng.random() < 0.3:
        extra_cfg["unknown_in_list"] = rng.choice([0.0, 0.0, 0.5, 0.99])
    if rng.random() < 0.3:
        extra_cfg["split_call"] = True
    if flavour in ("aserial", "atcp") and len(images) >= 2 and rng.random() < 0.5:
        extra_cfg["concurrent_updates"] = True
        for i, img in enumerate(images[:2]):
            img["via"], img["corrupt"] = "hex", False
            img["type"] = 100 + i  # two different firmwares
    sessions = []
    for nid in nodes:
        sessions.append({"node": nid, "image": rng.randrange(len(images)), "order": rng.choice(["desc", "desc", "asc", "random"]),
                         "repeat": rng.choice([0.0, 0.0, 0.1, 0.3]), "timeout": rng.choice([0.2, 0.5, 1.0]), "start": rng.choice([0.0, 0.01, 0.3]),
                         "sleepy": rng.random() < 0.3, "stray": None})
    keys_used = {(img["type"], img["ver"]) for img in images}
    for sess in sessions:
        if rng.random() < 0.25:
            stray = next(k for k in [(4242, 17), (4243, 18), (1, 1), (7, 7)] if k not in keys_used)
            sess["stray"] = list(stray)
    if extra_cfg.get("split_call") and rng.random() < 0.7:
        for sess in sessions:
            sess["image"] = sessions[0]["image"]
    rates = rng.choice([{"drop": 0.0, "dup": 0.0, "delay": 0.0}, {"drop": 0.03, "dup": 0.03, "delay": 0.1}, {"drop": 0.1, "dup": 0.1, "delay": 0.3},
                        {"drop": 0.0, "dup": 0.2, "delay": 0.5}])
    cfg = {"flavour": flavour, "version": rng.choice(["1.4", "2.0", "2.2"]), "images": images, "rates": rates,
           "link_seed": rng.getrandbits(32), "fault_until": rng.choice([2.0, 5.0, 20.0]), "sched": {"policy": "serial"}}
    cfg.update(extra_cfg)
    return {"cfg": cfg, "ops": sessions}


def _vio(cls, detail, **sig):
    sig["class"] = cls
    return {"class": cls, "detail": detail, "signature": sig, "owner": "C09"}


class Link:
    def __init__(self, world, rates, seed, fault_until):
        self.world, self.sim, self.dev = world, world.sim, world.device
        self.rates = rates
        self.rng = random.Random(seed)
        self.fault_until = fault_until
        self.peers = {}
        self.stats = {"drop": 0, "dup": 0, "delay": 0}
        self.dev.line_hooks.append(self.from_gateway)

    def _plan(self):
        """Returns list of delays for the copies to deliver (empty = dropped)."""
        base = 0.002
        if self.sim.now >= self.fault_until:
            return [base]
        r = self.rng.random()
        if r < self.rates["drop"]:
            self.stats["drop"] += 1
            return []
        delays = [base]
        if self.rng.random() < self.rates["delay"]:
            self.stats["delay"] += 1
            delays = [base + self.rng.choice([0.05, 0.15, 0.4])]
        if self.rng.random() < self.rates["dup"]:
            self.stats["dup"] += 1
            delays.append(delays[0] + self.rng.choice([0.001, 0.1]))
        return delays

    def to_gateway(self, line):
        for delay in self._plan():
            self.sim.call_at(self.sim.now + delay, lambda l=line: self.dev.inject(l.encode() + b"\n"))

    def from_gateway(self, raw, conn):
        try:
            line = raw.decode("utf-8").rstrip("\n")
            node = int(line.split(";", 1)[0])
        except (UnicodeDecodeError, ValueError):
            return
        peer = self.peers.get(node)
        if peer is None:
            return
        for delay in self._plan():
            self.sim.call_at(self.sim.now + delay, lambda l=line, p=peer: p.on_line(l))


class Bootloader:
    """MYSBootloader-shaped OTA client (runs inside scheduler callbacks: never blocks)."""

    def __init__(self, link, spec, image_key, expect_session):
        self.link, self.sim = link, link.sim
        self.node = spec["node"]
        self.spec = spec
        self.key = image_key
        self.expect_session = expect_session
        self.state = "boot"  # boot -> config -> fetch -> done | failed
        self.blocks = {}  # index -> list of payload copies (bytes)
        self.B = self.C = None
        self.pending = None
        self.queue = []
        self.retries = 0
        self.retransmissions = 0
        self.errors = []
        self.token = 0
        self.finished_at = None
        self.rng = random.Random(spec["node"] * 7919 + 13)
        self.config_requests = 0
        self.strayed = False
        link.peers[self.node] = self

    def start(self):
        self.sim.call_at(self.sim.now + self.spec["start"], self._send_config)

    def _arm(self):
        self.token += 1
        tok = self.token
        self.sim.call_at(self.sim.now + self.spec["timeout"], lambda: self._timeout(tok))

    def _send_config(self):
        if self.state in ("done", "failed"):
            return
        self.state = "config"
        self.config_requests += 1
        self.link.to_gateway(f"{self.node};255;4;0;0;{le16(1, 1, 8, 0xABCD, 0x0102)}")
        self._arm()

    def _next_block(self):
        if not self.queue:
            self._finish()
            return
        self.pending = self.queue[0]
        ftype, fver = self.key
        stray = self.spec.get("stray")
        if stray and self.blocks and not self.strayed:
            # once, in the middle of the download: a request naming firmware the controller does not have (the sketch the
            # node is running now) - not answered, and the download goes on
            self.strayed = True
            self.link.to_gateway(f"{self.node};255;4;0;2;{le16(stray[0], stray[1], self.pending)}")
        self.link.to_gateway(f"{self.node};255;4;0;2;{le16(ftype, fver, self.pending)}")
        self._arm()

    def _timeout(self, tok):
        if tok != self.token or self.state in ("done", "failed"):
            return
        self.retries += 1
        self.retransmissions += 1
        if self.retries > 400:
            self.state = "failed"
            self.errors.append("gave up after 400 retries")
            return
        if self.state == "config":
            self._send_config()
        elif self.state == "fetch":
            self._next_block()

    def on_line(self, line):
        parts = line.split(";", 5)
        if len(parts) != 6 or parts[2] != "4":
            return
        sub = parts[4]
        if sub == "1" and self.state == "config":
            words = unle16(parts[5], 4)
            if words is None:
                self.errors.append(f"malformed config response {parts[5]!r}")
                return
            if (words[0], words[1]) != self.key:
                self.errors.append(f"config response for {words[:2]} but scheduled {self.key}")
                return
            self.B, self.C = words[2], words[3]
            order = list(range(self.B))
            if self.spec["order"] == "desc":
                order.reverse()
            elif self.spec["order"] == "random":
                self.rng.shuffle(order)
            extra = [self.rng.randrange(self.B) for _ in range(int(self.B * self.spec["repeat"]))] if self.B else []
            self.queue = order + extra
            self.state = "fetch"
            self.token += 1
            self._next_block()
        elif sub == "3" and self.state == "fetch":
            payload = parts[5]
            hdr = unle16(payload[:12], 3)
            if hdr is None:
                self.errors.append(f"malformed block response {payload!r}")
                return
            if (hdr[0], hdr[1]) != self.key:
                self.errors.append(f"block response echoes {hdr[:2]}, requested {self.key}")
                return
            try:
                data = bytes.fromhex(payload[12:])
            except ValueError:
                self.errors.append(f"non-hex block data {payload!r}")
                return
            self.blocks.setdefault(hdr[2], []).append(data)
            if hdr[2] == self.pending and self.queue and self.queue[0] == hdr[2]:
                self.queue.pop(0)
                self.retries = 0
                self.token += 1
                self._next_block()

    def _finish(self):
        self.state = "done"
        self.finished_at = self.sim.now
        self.token += 1


def _run_history(case):
    from checks import netcheck  # pylint: disable=import-outside-toplevel
    res = netcheck.run_net(case, {"C09"}, lambda probes, run_: bool(probes.get("ota_block_responses", 0) >= 3 and probes.get("ota_sessions_scheduled", 0) >= 2))
    probes = res["probes"]
    if probes.get("ota_block_responses"):
        probes["history_block_responses"] = probes["ota_block_responses"]
    return res


def _run_crowd(case):
    """Many nodes at once: after a power cut 110-140 nodes ask for their firmware in the same moment (one big read on
    the threaded flavours: all requests are queued before the pump gets to the first).  Every one of them is answered."""
    cfg = case["cfg"]
    flavour = cfg["flavour"]
    world = W.World(flavour, {"protocol_version": cfg["version"], "reconnect_timeout": 1e7}, sched={"policy": "serial"}, max_steps=6_000_000)
    sim = world.sim
    violations, probes, faults = [], {}, {}
    incomplete = None
    try:
        try:
            gateway = world.build()
            world.start()
            nodes = list(range(1, cfg["n_nodes"] + 1))
            world.feed("".join(f"{n};255;0;0;17;2.0\n" for n in nodes))
            image = bytes.fromhex(cfg["image"])
            if W.is_async(flavour):
                world.on_loop(lambda: gateway.tasks.ota.make_update(nodes, 7, 3, image))
            else:
                gateway.tasks.ota.make_update(nodes, 7, 3, image)
            padded = image + b"\xff" * ((-len(image)) % 128)
            blocks = len(padded) // 16
            crc = crc16_modbus(padded)
            base = len(world.device.writes)
            world.feed("".join(f"{n};255;4;0;0;{le16(1, 1, 8, 0xABCD, 0x0102)}\n" for n in nodes))
            world.settle()
            world.advance(0.5)
            got = {}
            for text in world.written_lines(base):
                parts = text.split(";")
                if len(parts) == 6 and parts[2] == "4" and parts[4] == "1":
                    got.setdefault(int(parts[0]), []).append(parts[5])
            want_cfg = le16(7, 3, blocks, crc)
            missing = [n for n in nodes if n not in got]
            wrong = [n for n in nodes if n in got and (len(got[n]) != 1 or got[n][0].lower() != want_cfg.lower())]
            if missing:
                violations.append(_vio("ota-not-finished", {"note": "config request of a scheduled node not answered (crowd)", "nodes": missing[:8], "count": len(missing),
                                                            "of": len(nodes)}, state="crowd-config"))
            elif wrong:
                violations.append(_vio("ota-advertised-wrong", {"nodes": wrong[:5], "got": got[wrong[0]][:2], "want": want_cfg}))
            else:
                probes["crowd_config_answered"] = len(nodes)
                base = len(world.device.writes)
                idx = cfg["blk"] % blocks
                world.feed("".join(f"{n};255;4;0;2;{le16(7, 3, idx)}\n" for n in nodes))
                world.settle()
                world.advance(0.5)
                got = {}
                for text in world.written_lines(base):
                    parts = text.split(";")
                    if len(parts) == 6 and parts[2] == "4" and parts[4] == "3":
                        got.setdefault(int(parts[0]), []).append(parts[5])
                want_blk = (le16(7, 3, idx) + padded[idx * 16:(idx + 1) * 16].hex()).lower()
                missing = [n for n in nodes if n not in got]
                wrong = [n for n in nodes if n in got and (len(got[n]) != 1 or got[n][0].lower() != want_blk)]
                if missing:
                    violations.append(_vio("ota-block-missing", {"note": "block request not answered (crowd)", "nodes": missing[:8], "count": len(missing), "of": len(nodes), "blk": idx}))
                elif wrong:
                    violations.append(_vio("ota-block-wrong", {"nodes": wrong[:5], "got": got[wrong[0]][:2], "want": want_blk}))
                else:
                    probes["crowd_blocks_answered"] = len(nodes)
            for role, exc, trace in sim.died:
                violations.append(_vio("thread-died", {"role": role, "exc": exc, "trace": trace[-1000:]}, role=role, exc=exc.split("(")[0]))
        except kernel.SimAbort as exc:
            incomplete = str(exc)
        except kernel.Deadlock as exc:
            incomplete = "deadlock: " + str(exc)[:200]
    finally:
        digest = sim.digest()
        steps = sim.steps
        now = sim.now
        world.close()
    return {"violations": violations, "digest": digest, "nontrivial": bool(probes.get("crowd_blocks_answered")), "key": digest, "probes": probes, "faults": faults,
            "steps": steps, "sim_seconds": now, "incomplete": incomplete, "states": [],
            "sample": {"mode": "crowd", "flavour": flavour, "nodes": cfg["n_nodes"], "image_len": len(cfg["image"]) // 2}}


def run(case):
    cfg = case["cfg"]
    if cfg.get("mode") == "history":
        return _run_history(case)
    if cfg.get("mode") == "crowd":
        return _run_crowd(case)
    flavour = cfg["flavour"]
    fs = simfs.SimFS()
    world = W.World(flavour, {"protocol_version": cfg["version"], "reconnect_timeout": 1e7}, fs=fs, sched=cfg["sched"], max_steps=6_000_000)
    sim = world.sim
    violations, probes, faults = [], {}, {}
    incomplete = None
    try:
        try:
            gateway = world.build()
            world.start()
            nodes = [s["node"] for s in case["ops"]]
            world.feed("".join(f"{n};255;0;0;17;2.0\n" for n in nodes))
            if cfg["version"] in ("2.0", "2.1", "2.2"):
                # some of the updating nodes are smart-sleep nodes (firmware stream responses are the stated
                # exception to the hold-back rule, so their transfer must work all the same)
                wake = "3;0;32;5" if cfg["version"] == "2.2" else "3;0;22;5"
                for spec in case["ops"]:
                    if spec.get("sleepy"):
                        world.feed(f"{spec['node']};1;0;0;6;t\n{spec['node']};255;{wake}\n")
                        probes["sleepy_peers"] = probes.get("sleepy_peers", 0) + 1
            n_img = len(cfg["images"])
            images = [None] * n_img
            loaded = {}
            scheduled = {}  # node -> key of the last update call that really scheduled it
            keys = [(img["type"], img["ver"]) for img in cfg["images"]]
            late = cfg.get("late_image")
            if late is not None and (late >= n_img or n_img < 2 or keys.count(keys[late]) > 1):
                late = None

            def prepare(idx):
                img = cfg["images"][idx]
                data = bytes.fromhex(img["data"])
                prep = {"idx": idx, "img": img, "data": data, "key": keys[idx], "ok": True, "path": None,
                        "targets": [s["node"] for s in case["ops"] if s["image"] == idx]}
                if cfg.get("unknown_in_list") is not None and prep["targets"]:
                    # the list of the update call also names a node the gateway does not know (anywhere in the list):
                    # that one is skipped, the others are updated
                    prep["targets"].insert(int(cfg["unknown_in_list"] * (len(prep["targets"]) + 1)), 199)
                    probes["update_lists_with_unknown_id"] = probes.get("update_lists_with_unknown_id", 0) + 1
                if img["via"] == "hex":
                    text = intel_hex(data, img["record_len"], img.get("base", 0), img["ela"], img.get("gap"))
                    if img.get("gap"):
                        probes["sparse_hex_files"] = probes.get("sparse_hex_files", 0) + 1
                    if img["corrupt"]:
                        lines = text.split("\n")
                        first = lines[1 if img["ela"] else 0]
                        bad = first[:-2] + f"{(int(first[-2:], 16) ^ 0x5A):02X}"
                        lines[1 if img["ela"] else 0] = bad
                        text = "\n".join(lines)
                        prep["ok"] = False
                        faults["corrupt_hex"] = faults.get("corrupt_hex", 0) + 1
                    prep["path"] = f"/work/fw{idx}.hex"
                    fs.put(prep["path"], text.encode())
                return prep

            def record(prep):
                if prep["ok"]:
                    loaded[prep["key"]] = prep["data"]  # a later image with the same key replaces the earlier one
                    for nid in prep["targets"]:
                        scheduled[nid] = prep["key"]
                images[prep["idx"]] = (prep["key"], prep["ok"])

            def issue(idx):
                prep = prepare(idx)
                img = prep["img"]
                all_targets = prep["targets"]
                rest = []
                if cfg.get("split_call") and len(all_targets) >= 2 and prep["ok"]:
                    # the firmware is handed over with the first node only; the others are added by a second update call
                    # that names type and version but brings no firmware (the documented use of the optional argument)
                    prep["targets"], rest = all_targets[:1], all_targets[1:]
                    probes["update_calls_without_firmware"] = probes.get("update_calls_without_firmware", 0) + 1
                if prep["path"] is not None:
                    try:
                        world.call("update_fw", prep["targets"], img["type"], img["ver"], fw_path=prep["path"])
                        if prep["ok"]:
                            probes["hex_loaded"] = probes.get("hex_loaded", 0) + 1
                    except Exception as exc:  # pylint: disable=broad-except
                        if prep["ok"]:
                            violations.append(_vio("update-raised", {"exc": repr(exc), "via": "hex"}, exc=type(exc).__name__))
                elif W.is_async(flavour):
                    world.on_loop(lambda t=prep["targets"], i=img, d=prep["data"]: gateway.tasks.ota.make_update(t, i["type"], i["ver"], d))
                else:
                    gateway.tasks.ota.make_update(prep["targets"], img["type"], img["ver"], prep["data"])
                if rest:
                    try:
                        world.call("update_fw", rest, img["type"], img["ver"])
                    except Exception as exc:  # pylint: disable=broad-except
                        violations.append(_vio("update-raised", {"exc": repr(exc), "via": "second call without firmware"}, exc=type(exc).__name__))
                    prep["targets"] = all_targets
                record(prep)

            pair = []
            if cfg.get("concurrent_updates") and W.is_async(flavour):
                # two update calls for two different HEX files issued together on the loop (asyncio.gather): each
                # must register ITS file's bytes under its key
                cand = [i for i in range(n_img) if i != late and cfg["images"][i]["via"] == "hex" and not cfg["images"][i]["corrupt"]
                        and keys.count(keys[i]) == 1]
                if len(cand) >= 2:
                    pair = cand[:2]
                    preps = [prepare(i) for i in pair]

                    async def both():
                        import asyncio as _asyncio  # pylint: disable=import-outside-toplevel
                        await _asyncio.gather(*[gateway.update_fw(pp["targets"], pp["img"]["type"], pp["img"]["ver"], fw_path=pp["path"]) for pp in preps])

                    try:
                        world.acall(both())
                        probes["concurrent_hex_updates"] = 1
                        probes["hex_loaded"] = probes.get("hex_loaded", 0) + 2
                    except Exception as exc:  # pylint: disable=broad-except
                        violations.append(_vio("update-raised", {"exc": repr(exc), "via": "hex, two calls gathered"}, exc=type(exc).__name__))
                    for pp in preps:
                        record(pp)
            for idx in range(n_img):
                if idx == late or idx in pair:
                    continue
                issue(idx)
            link = Link(world, cfg["rates"], cfg["link_seed"], cfg["fault_until"])
            peers = []

            def start_peers(which):
                for spec in case["ops"]:
                    if not which(spec):
                        continue
                    key, ok = images[spec["image"]]
                    expect = scheduled.get(spec["node"]) == key
                    if not expect and spec["node"] in scheduled:
                        key = scheduled[spec["node"]]  # an earlier successful call still stands
                        expect = True
                    peer = Bootloader(link, spec, key, expect)
                    peers.append(peer)
                    peer.start()

            start_peers(lambda spec: spec["image"] != late)
            if late is not None:
                # one more update call (another firmware, other nodes) arrives while the first transfers are under way
                world.advance(cfg.get("late_at", 0.4))
                issue(late)
                probes["update_call_during_transfers"] = 1
                start_peers(lambda spec: spec["image"] == late)
            # bounded liveness: after link faults stop, every transfer needs at most one
            # round trip per (re)requested block plus one timeout per block of slack
            total_blocks = sum(((len(loaded.get(p.key, b"")) + 127) // 128 + 1) * 8 * (1 + p.spec["repeat"]) + 4 for p in peers)
            deadline = cfg["fault_until"] + 5.0 + total_blocks * (max(p.spec["timeout"] for p in peers) + 0.1)
            while sim.now < deadline and any(p.state not in ("done", "failed") and p.expect_session for p in peers):
                world.advance(0.5)
            world.advance(1.0)
            for role, exc, trace in sim.died:
                violations.append(_vio("thread-died", {"role": role, "exc": exc, "trace": trace[-1000:]}, role=role, exc=exc.split("(")[0]))
            if world.loop is not None:
                for msg, exc in world.loop.exceptions:
                    violations.append(_vio("loop-exception", {"message": msg, "exc": exc}, exc=exc.split("(")[0]))
            # ---------------------------------------------------------------- oracle at the peers
            done = 0
            for peer in peers:
                image = loaded.get(peer.key)
                who = {"node": peer.node, "key": list(peer.key), "order": peer.spec["order"], "image_len": None if image is None else len(image)}
                if not peer.expect_session:
                    if peer.B is not None:
                        violations.append(_vio("session-without-firmware", dict(who, note="config response although the HEX file was corrupt")))
                    continue
                for err in peer.errors[:3]:
                    violations.append(_vio("ota-echo-wrong", dict(who, error=err)))
                if peer.state != "done":
                    violations.append(_vio("ota-not-finished", dict(who, state=peer.state, blocks_got=len(peer.blocks), B=peer.B, t=round(sim.now, 2),
                                                                    deadline=round(deadline, 2), retries=peer.retransmissions), state=peer.state))
                    continue
                done += 1
                B, C = peer.B, peer.C
                total = 16 * B
                k = total - len(image)
                if k < 0 or k > 128 or total % 128 != 0:
                    violations.append(_vio("ota-advertised-wrong", dict(who, blocks=B, crc=C, pad=k)))
                    continue
                bad = False
                for idx2 in range(B):
                    copies = peer.blocks.get(idx2)
                    if not copies:
                        violations.append(_vio("ota-block-missing", dict(who, blk=idx2)))
                        bad = True
                        break
                    if any(c != copies[0] for c in copies):
                        violations.append(_vio("ota-copies-differ", dict(who, blk=idx2, copies=[c.hex() for c in copies[:3]])))
                        bad = True
                        break
                if bad:
                    continue
                got = b"".join(peer.blocks[i][0] for i in range(B))
                want = image + b"\xff" * k
                if got != want:
                    pos = next(i for i in range(min(len(got), len(want))) if got[i] != want[i]) if len(got) == len(want) else -1
                    violations.append(_vio("ota-block-wrong", dict(who, first_difference_at=pos, got_len=len(got), want_len=len(want))))
                    continue
                if crc16_modbus(got) != C:
                    violations.append(_vio("ota-advertised-wrong", dict(who, blocks=B, crc=C, own_crc=crc16_modbus(got))))
                    continue
                extra = [i for i in peer.blocks if i >= B]
                _ = extra
            if done:
                probes["transfers_completed"] = done
            retrans = sum(p.retransmissions for p in peers)
            if retrans:
                probes["retransmissions"] = retrans
            if done >= 2:
                probes["nodes_interleaved"] = 1
            for name, val in link.stats.items():
                if val:
                    faults[name] = faults.get(name, 0) + val
        except kernel.SimAbort as exc:
            incomplete = str(exc)
        except kernel.Deadlock as exc:
            incomplete = "deadlock: " + str(exc)[:200]
    finally:
        digest = sim.digest()
        steps = sim.steps
        now = sim.now
        world.close()
    nontrivial = bool(probes.get("transfers_completed") and (probes.get("retransmissions") or probes.get("nodes_interleaved")))
    return {"violations": violations, "digest": digest, "nontrivial": nontrivial, "key": digest, "probes": probes, "faults": faults,
            "steps": steps, "sim_seconds": now, "incomplete": incomplete, "states": [],
            "sample": {"flavour": flavour, "version": cfg["version"], "rates": cfg["rates"], "fault_until": cfg["fault_until"],
                       "images": [{k: (v if k != "data" else f"<{len(v) // 2} bytes>") for k, v in i.items()} for i in cfg["images"]],
                       "sessions": case["ops"]}}


def shrinkers(case):
    cfg = case["cfg"]
    if cfg.get("mode") == "history":
        return
    for i, img in enumerate(cfg["images"]):
        data = img["data"]
        if len(data) > 2:
            cand = dict(case)
            imgs = [dict(x) for x in cfg["images"]]
            imgs[i]["data"] = data[: (len(data) // 4) * 2] or data[:2]
            cand["cfg"] = dict(cfg, images=imgs)
            yield cand
    if cfg["rates"]["drop"] or cfg["rates"]["dup"] or cfg["rates"]["delay"]:
        cand = dict(case)
        cand["cfg"] = dict(cfg, rates={"drop": 0.0, "dup": 0.0, "delay": 0.0})
        yield cand
