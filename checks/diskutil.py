"""Helpers for the W-disk checks (C11-C15): build states, save, load, compare."""
from checks import netgen
from sim import fs as simfs
from sim import world as W

STATE_WEIGHTS = {"present_node": 10, "present_child": 14, "value": 22, "battery": 4, "sketch": 6, "heartbeat": 3, "idreq": 4,
                 "adopt": 1, "req": 0, "time": 0, "config": 0, "gwready": 0, "discover_resp": 0, "internal_other": 0,
                 "stream_cfg": 0, "stream_blk": 0, "stream_bad": 0, "stream_other": 0, "unknown_traffic": 1,
                 "invalid_frame": 0, "garbage": 0, "ctl_set": 0, "ctl_fw": 0, "metric": 0, "advance": 0, "presleep": 2}


def state_lines(rng, version, n_ops, nodes=(1, 3)):
    """Lines (strings) of a history that builds a state."""
    ops = netgen.make_ops(rng, version, n_ops, STATE_WEIGHTS, nodes=nodes)
    lines = []
    for op in ops:
        if op[0] == "line":
            lines.append(op[1])
    return lines


class DiskWorld:
    """A World used only for its kernel (timers) and SimFS switching."""

    def __init__(self, version, fmt, flavour="serial", bufsize=8192, sched=None, max_steps=400_000, relpath=None, window=None):
        self.version = version
        self.fmt = fmt
        # the file as configured (possibly relative to the working directory, as in the README) ...
        self.path = f"{relpath}.{fmt}" if relpath else f"/work/mysensors.{fmt}"
        self.fs = simfs.SimFS(bufsize=bufsize)
        # ... and where it really lives
        self.abspath = self.fs.norm(self.path)
        self.fs.mkdir(simfs.posixpath.dirname(self.abspath))
        self.world = W.World(flavour, {"protocol_version": version, "persistence": True, "persistence_file": self.path},
                             fs=self.fs, sched=sched, max_steps=max_steps, window=window)
        self.flavour = flavour

    def use(self, fs):
        fs.mkdir(simfs.posixpath.dirname(self.abspath))
        self.fs = fs
        self.world.fs = fs
        simfs.FsHolder.fs = fs

    def gateway(self):
        return self.world.build()

    def feed(self, gateway, lines):
        for line in lines:
            gateway.logic(line)

    def load(self, gateway):
        """start_persistence() the way the flavour does it.  Returns exception or None."""
        try:
            if W.is_async(self.flavour):
                self.world.gateway = gateway
                self.world.acall(gateway.start_persistence())
            else:
                gateway.start_persistence()
        except Exception as exc:  # pylint: disable=broad-except
            return exc
        return None

    def save(self, gateway):
        """One save_sensors() call; returns ('ok'|'error'|'crash', exc)."""
        try:
            gateway.tasks.persistence.save_sensors()
        except simfs.Crash as exc:
            return "crash", exc
        except Exception as exc:  # pylint: disable=broad-except
            return "error", exc
        return "ok", None

    def close(self):
        return self.world.close()


def proj(gateway):
    return W.projection(gateway.sensors)
