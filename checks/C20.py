"""C20 - connections are supervised and the callbacks are exact."""
import hashlib

import serial as _real_serial

from sim import kernel
from sim import world as W

ID = "C20"
LEVEL = "exploration"
RULE = ("real SerialGateway / TCPGateway / AsyncSerialGateway / AsyncTCPGateway on fake devices and a simulated clock, reconnect_timeout "
        "drawn from {0.5,1,3,10,30}; per run a script of <=8 device events (connect refused / unreachable / timing out / succeeding, read "
        "error, write error, orderly close and reset by the peer, user disconnect(), stop()) with drawn gaps, or a TCP probe-answer "
        "latency pattern (answers after 0..0.99 rt, bursts of late answers, silence from t0). History oracle over the device, callback "
        "and attempt logs on the simulated clock: made-callbacks == established connections, lost-callbacks == lost connections (None "
        "for a user disconnect), a connect attempt follows every loss the user did not request and attempts repeat every "
        "reconnect_timeout after the previous one failed until one succeeds, never two open connections, nothing after stop(); TCP: "
        "answered probes never drop the link during 20 rt, silence drops it within [2 rt, 2.5 rt + 0.5] and re-dials at once, probes "
        ">= rt apart. non-trivial = >=2 losses of different kinds, or a watchdog expiry, or stop() while a connect loop is sleeping; "
        "distinct = distinct run digests")
TIERS = {
    "quick": {"runs": 1600, "max_wall": 240, "minimise_s": 25, "chunk": 50},
    "thorough": {"runs": 40000, "max_wall": 3000, "minimise_s": 60, "chunk": 200},
}
FAULT_KINDS = ["connect refused", "connect unreachable", "connect timeout", "read error", "write error", "peer close", "peer reset",
               "user disconnect", "stop", "probe answer latency", "probe silence",
               "stop() while re-dialling with persistence on and a failing final save"]
REAL = ["mysensors.transport", "mysensors.gateway_serial (sync_connect, async_connect)", "mysensors.gateway_tcp (sync_connect, async_connect, "
        "TCPTransport, check_connection, AsyncTCPMySensorsProtocol)", "mysensors.task start/stop", "serial.threaded.ReaderThread"]
STUBS = ["serial port, socket, select, asyncio selector/serial transports (documented callback contract)", "clock", "thread scheduling"]
ASSUMPTIONS = ["an orderly close by the TCP peer is visible to the threaded gateway only through recv() returning b'' (as on a real socket)",
               "asyncio: the lost-callback of the connection closed by stop() itself may run in the loop iteration right after stop() returned",
               "timing bounds: +-5% + 60 ms (20 ms poll slack of the threaded flavours)"]
REQUIRED_PROBES = ["losses", "reconnects_after_loss", "watchdog_expiry", "stop_runs"]

RTS = [0.5, 1.0, 3.0, 10.0, 30.0]
EVENTS = {
    "serial": ["read_error_stop_in_callback", "read_error", "write_error", "both_errors", "disconnect", "stop", "wait", "wait"],
    "aserial": ["read_error", "write_error", "disconnect", "stop", "wait", "wait"],
    "tcp": ["read_error_stop_in_callback", "read_error", "write_error", "both_errors", "peer_eof", "peer_reset", "disconnect", "stop", "wait", "wait"],
    "atcp": ["read_error", "write_error", "peer_eof", "peer_reset", "disconnect", "stop", "wait", "wait"],
}


def gen(rng, tier, index):
    flavour = rng.choice(["serial", "tcp", "aserial", "atcp"])
    rt = rng.choice(RTS)
    mode = "events"
    if flavour in ("tcp", "atcp") and rng.random() < 0.3:
        mode = rng.choice(["watchdog_ok", "watchdog_silence"])
    elif rng.random() < 0.15:
        mode = "stop_during_retry"
    outcomes = ["ok", "ok", "slow", "fail", "timeout", "unreach"] if flavour in ("tcp", "atcp") else ["ok", "ok", "slow", "fail"]
    plan = [rng.choice(outcomes) for _ in range(rng.randint(0, 6))] if mode in ("events", "stop_during_retry") else []
    events = []
    stop_save_fault = None
    if mode == "stop_during_retry":
        # stop() (or a user disconnect) lands while the connect loop is between two failed attempts
        fails = ["fail", "fail", "timeout", "unreach"] if flavour in ("tcp", "atcp") else ["fail"]
        plan = [rng.choice(fails) for _ in range(rng.randint(2, 5))] + ["ok", "ok"]
        events = [[rng.choice(["stop", "stop", "disconnect"]), rng.choice([0.3, 0.9, 1.4, 2.2, 3.5]) * rt]]
        if events[0][0] == "stop" and rng.random() < 0.4:
            stop_save_fault = [rng.choice(["open", "write", "fsync", "rename"]), rng.choice(["EIO", "ENOSPC"])]
        elif rng.random() < 0.35:
            # stop() (or disconnect) lands while a dial is IN FLIGHT - a slow handshake that then succeeds
            n_fail = rng.randint(1, 3)
            plan = ["fail"] * n_fail + ["slow", "ok", "ok"]
            events = [[events[0][0], n_fail * rt + rng.choice([0.05, 0.1, 0.2])]]
    if mode == "events":
        for _ in range(rng.randint(1, 8)):
            name = rng.choice(EVENTS[flavour])
            events.append([name, rng.choice([0.0, 0.05, 0.3 * rt, rt, 1.5 * rt, 2.2 * rt, 3.1 * rt])])
            if name == "stop":
                break
    lat = []
    # "answered within the reconnect timeout", less the stated timing slack (5% + 60 ms for
    # the 20 ms poll loops of reader and pump, 20 ms margin): the latest answer still counted
    late = max(0.0, min(0.9 * rt, rt - 0.05 * rt - 0.08))
    if mode == "watchdog_ok":
        lat = [rng.choice([0.0, 0.1 * rt, 0.5 * rt, late, late]) for _ in range(30)]
    elif mode == "watchdog_silence":
        lat = [rng.choice([0.0, 0.1 * rt, 0.5 * rt, late]) for _ in range(rng.randint(0, 4))]
    pol = rng.random()
    sched = {"policy": "serial"}
    if flavour in ("serial", "tcp") and pol < 0.35:
        sched = {"policy": "rw", "seed": rng.getrandbits(32), "p": rng.choice([0.005, 0.02])}
    cfg = {"flavour": flavour, "rt": rt, "mode": mode, "plan": plan, "lat": lat, "version": rng.choice(["1.4", "2.0", "2.2"]), "sched": sched}
    if stop_save_fault:
        cfg["stop_save_fault"] = stop_save_fault
    if mode == "watchdog_ok" and rng.random() < 0.5:
        cfg["gw_traffic"] = rng.choice([[0], [0, 7], [7]])
    return {"cfg": cfg, "ops": events}


def _vio(cls, detail, **sig):
    sig["class"] = cls
    return {"class": cls, "detail": detail, "signature": sig, "owner": "C20"}


def run(case):
    cfg = case["cfg"]
    flavour, rt = cfg["flavour"], cfg["rt"]
    is_async = W.is_async(flavour)
    gw_kwargs = {"protocol_version": cfg["version"], "reconnect_timeout": rt}
    if cfg.get("stop_save_fault"):
        gw_kwargs.update(persistence=True, persistence_file="/work/ms.json")
    world = W.World(flavour, gw_kwargs, sched=cfg["sched"], max_steps=4_000_000)
    sim = world.sim
    dev = world.device
    violations, probes, faults = [], {}, {}
    incomplete = None
    losses = []  # {conn, t, user, kind}
    stop_called = stop_returned = None
    user_disconnected = None
    silence_from = None
    try:
        try:
            gateway = world.build()
            dev.connect_plan = list(cfg["plan"])
            dev.version_plan = list(cfg["lat"])
            if cfg["mode"] == "watchdog_silence":
                dev.version_plan += [None] * 200  # after the drawn answers: silence
            try:
                world.start(persistence=bool(cfg.get("stop_save_fault")))
            except (kernel.SimAbort, kernel.Deadlock):
                raise
            except Exception as exc:  # pylint: disable=broad-except
                # a failing dial must be retried by the connect loop, not surface from start()
                violations.append(_vio("start-raised", {"exc": repr(exc), "plan": cfg["plan"][:4]}, exc=type(exc).__name__, flavour=flavour))
                raise _Done()
            if cfg["mode"] == "stop_during_retry":
                name, when = case["ops"][0]
                conn = dev.current()
                if is_async and conn is not None:
                    # the asyncio start() returns only once the first dial has succeeded: the connect loop that
                    # stop() is to interrupt is the re-dial after a lost link (every dial fails for a while)
                    dev.connect_plan = [p for p in cfg["plan"] if p != "ok"] * 3 + ["ok", "ok"]
                    exc = _real_serial.SerialException("device gone") if flavour == "aserial" else OSError(104, "reset")
                    conn.fail_read(exc)
                    losses.append({"conn": conn.conn_id, "t": sim.now, "user": False, "kind": "read_error"})
                    faults["read_error"] = faults.get("read_error", 0) + 1
                world.advance(when)
                faults[name + "_during_retry"] = 1
                if dev.current() is None:
                    probes["stop_while_connect_loop_sleeping"] = 1
                if name == "stop":
                    if cfg.get("stop_save_fault"):
                        # persistence is on and the final save of this stop() fails (disk full, I/O error): whatever
                        # stop() does about that, the connect loop must be gone afterwards
                        gateway.tasks.persistence.need_save = True
                        fs = world.fs
                        planted = []

                        def plant(opname, _path, fs=fs, planted=planted):
                            if opname == cfg["stop_save_fault"][0] and not planted:
                                planted.append(1)
                                fs.plan[fs.opno] = cfg["stop_save_fault"][1]

                        fs.arm({})
                        fs.trace = plant
                        faults["final_save_" + cfg["stop_save_fault"][1]] = 1
                    stop_called = sim.now
                    try:
                        world.stop()
                    except (kernel.SimAbort, kernel.Deadlock):
                        raise
                    except BaseException as exc:  # pylint: disable=broad-except
                        if not cfg.get("stop_save_fault"):
                            raise
                        probes["stop_raised_on_failing_save"] = 1
                        _ = exc
                    stop_returned = sim.now
                    world.fs.trace = None
                    world.fs.disarm()
                    probes["stop_runs"] = 1
                else:
                    user_disconnected = sim.now
                    if is_async:
                        world.on_loop(gateway.tasks.transport.disconnect)
                    else:
                        gateway.tasks.transport.disconnect()
                world.advance(60.0 + 6 * rt)
                _oracle(world, cfg, violations, probes, losses, stop_called, stop_returned, user_disconnected, gateway)
                raise _Done()
            # let the initial connect loop finish (bounded)
            world.advance(min(len(cfg["plan"]), 6) * 2.1 * rt + 0.2)
            if dev.current() is not None:
                world.feed("1;255;0;0;17;2.0\n1;1;0;0;23;x\n")
            if cfg["mode"] == "events":
                for name, gap in case["ops"]:
                    conn = dev.current()
                    faults[name] = faults.get(name, 0) + 1
                    if name == "wait":
                        pass
                    elif name == "read_error" and conn is not None:
                        exc = _real_serial.SerialException("device gone") if flavour in ("serial", "aserial") else OSError(104, "reset")
                        conn.fail_read(exc)
                        losses.append({"conn": conn.conn_id, "t": sim.now, "user": False, "kind": name})
                    elif name == "read_error_stop_in_callback" and conn is not None and not is_async:
                        # the application reacts to the loss by stopping the gateway - from inside its on_conn_lost callback,
                        # ie in the thread that noticed the loss, before the library has gone on to re-dial
                        exc = _real_serial.SerialException("device gone") if flavour == "serial" else OSError(104, "reset")
                        box = {}

                        def stop_from_callback(_kind, _exc, box=box):
                            if "called" in box:
                                return
                            box["called"] = sim.now
                            try:
                                gateway.stop()
                            except Exception as err:  # pylint: disable=broad-except
                                box["raised"] = repr(err)
                            box["returned"] = sim.now

                        world.conn_hook = stop_from_callback
                        conn.fail_read(exc)
                        losses.append({"conn": conn.conn_id, "t": sim.now, "user": False, "kind": "read_error"})
                        world.advance(2.6 * rt + 0.7)
                        world.conn_hook = None
                        if "called" in box:
                            stop_called, stop_returned = box["called"], box.get("returned", box["called"])
                            probes["stop_from_lost_callback"] = 1
                            probes["stop_runs"] = 1
                            if "raised" in box:
                                violations.append(_vio("stop-raised", {"exc": box["raised"], "where": "inside on_conn_lost"}, flavour=flavour))
                            break
                    elif name == "write_error" and conn is not None and 1 in gateway.sensors and 1 in gateway.sensors[1].children:
                        exc = _real_serial.SerialException("write failed") if flavour in ("serial", "aserial") else BrokenPipeError(32, "Broken pipe")
                        conn.fail_write(exc)
                        losses.append({"conn": conn.conn_id, "t": sim.now, "user": False, "kind": name})
                        world.call("set_child_value", 1, 1, 24, "w")
                    elif name == "both_errors" and conn is not None and 1 in gateway.sensors and 1 in gateway.sensors[1].children:
                        # the device vanishes: the reader sees a read error and, at the same moment, a
                        # write of the pump fails (the re-dial that follows may be slow)
                        exc_r = _real_serial.SerialException("device gone") if flavour == "serial" else OSError(104, "reset")
                        exc_w = _real_serial.SerialException("write failed") if flavour == "serial" else BrokenPipeError(32, "Broken pipe")
                        dev.connect_plan.insert(0, "slow")
                        conn.fail_write(exc_w)

                        def unplug(c, _data, target=conn, exc=exc_r):
                            # at the instant the pump is inside its write the reader's read fails too
                            if c is target:
                                dev.write_hook = None
                                target.fail_read(exc)

                        dev.write_hook = unplug
                        losses.append({"conn": conn.conn_id, "t": sim.now, "user": False, "kind": name})
                        world.call("set_child_value", 1, 1, 24, "w")
                    elif name == "peer_eof" and conn is not None:
                        if is_async:
                            conn.peer_eof()
                        else:
                            conn.eof = True
                            conn._wake_reader("eof")
                        losses.append({"conn": conn.conn_id, "t": sim.now, "user": False, "kind": name})
                    elif name == "peer_reset" and conn is not None:
                        if is_async:
                            conn.fail_read(ConnectionResetError(104, "Connection reset by peer"))
                        else:
                            conn.reset = True
                            conn._wake_reader("reset")
                        losses.append({"conn": conn.conn_id, "t": sim.now, "user": False, "kind": name})
                    elif name == "disconnect":
                        if conn is not None:
                            losses.append({"conn": conn.conn_id, "t": sim.now, "user": True, "kind": name})
                        if user_disconnected is None:
                            user_disconnected = sim.now
                        if is_async:
                            world.on_loop(gateway.tasks.transport.disconnect)
                        else:
                            gateway.tasks.transport.disconnect()
                    elif name == "stop":
                        if conn is not None:
                            losses.append({"conn": conn.conn_id, "t": sim.now, "user": True, "kind": name})
                        stop_called = sim.now
                        world.stop()
                        stop_returned = sim.now
                        probes["stop_runs"] = 1
                        if any(a[0] > stop_called - 2.2 * rt and a[1] != "ok" for a in dev.attempts[-1:]):
                            probes["stop_while_connect_loop_sleeping"] = 1
                        break
                    else:
                        faults[name] -= 1
                    world.advance(gap)
                    if name in ("read_error", "write_error", "both_errors", "peer_eof", "peer_reset"):
                        world.advance(2.6 * rt + 0.7)  # enough for the watchdog path of the threaded TCP gateway
                if user_disconnected is not None or stop_called is not None:
                    world.advance(60.0)
                else:
                    world.advance(2.6 * rt + 1.0)
            elif cfg["mode"] == "watchdog_ok":
                if cfg.get("gw_traffic"):
                    # the gateway device is a node itself (id 0): it presents itself and a local sensor and, on 2.x, announces
                    # smart sleep like any node; so does an ordinary node - none of which is the watchdog's business
                    wake = {"2.0": "3;0;22;1", "2.2": "3;0;32;500"}.get(cfg["version"])
                    world.advance(0.2)
                    for nid in cfg["gw_traffic"]:
                        world.feed(f"{nid};255;0;0;18;2.2.0\n{nid};1;0;0;6;local\n{nid};1;1;0;0;21.5\n")
                        if wake:
                            world.feed(f"{nid};255;{wake}\n")
                    probes["gateway_node_traffic"] = 1
                world.advance(20 * rt)
            else:
                world.advance((len(cfg["lat"]) + 4.5) * (rt + 0.2) + 1.0)
                # the re-dialled link is silent from its first moment: it is supervised like the first one
                world.advance(3.5 * rt + 1.5)
            # ---------------------------------------------------------------- oracle
            _oracle(world, cfg, violations, probes, losses, stop_called, stop_returned, user_disconnected, gateway)
        except _Done:
            pass
        except kernel.SimAbort as exc:
            incomplete = str(exc)
        except kernel.Deadlock as exc:
            incomplete = "deadlock: " + str(exc)[:200]
    finally:
        digest = sim.digest()
        steps = sim.steps
        now = sim.now
        inter = sim.switch_digest() if sim.preemptions else None
        sched = sim.decisions() if sim.tracing else None
        world.close()
    kinds = {l["kind"] for l in losses}
    nontrivial = len(kinds) >= 2 or bool(probes.get("watchdog_expiry")) or bool(probes.get("stop_while_connect_loop_sleeping"))
    return {"violations": violations, "digest": digest, "nontrivial": nontrivial, "key": digest, "probes": probes, "faults": faults,
            "steps": steps, "sim_seconds": now, "incomplete": incomplete, "interleaving": inter, "sched": sched, "states": [],
            "sample": {"cfg": {k: v for k, v in cfg.items() if k != "sched"}, "events": case["ops"],
                       "attempts": [(round(a[0], 3), a[1]) for a in dev.attempts][:12],
                       "conn_events": [(round(e[0], 3), e[1], type(e[3]).__name__) for e in world.conn_events][:12]}}


class _Done(Exception):
    pass


def _oracle(world, cfg, violations, probes, losses, stop_called, stop_returned, user_disc, gateway):
    sim, dev = world.sim, world.device
    rt, flavour = cfg["rt"], cfg["flavour"]
    is_async = W.is_async(flavour)
    slack = 0.06 + 0.05 * rt
    ends = [t for t in (stop_called, user_disc) if t is not None]
    end_user = min(ends) if ends else None
    for role, exc, trace in sim.died:
        if role in ("controller",):
            continue
        if stop_called is not None or user_disc is not None:
            probes["thread_died_after_user_teardown:" + role] = 1
            continue
        violations.append(_vio("thread-died", {"role": role, "exc": exc, "trace": trace[-1200:]}, role=role, exc=exc.split("(")[0]))
    if world.loop is not None and world.loop.exceptions and user_disc is not None:
        probes["loop_exception_after_user_disconnect"] = 1
    elif world.loop is not None and world.loop.exceptions:
        for msg, exc in world.loop.exceptions:
            violations.append(_vio("loop-exception", {"message": msg, "exc": exc}, exc=exc.split("(")[0]))
    conns = dev.conns
    made = [e for e in world.conn_events if e[1] == "made"]
    lost = [e for e in world.conn_events if e[1] == "lost"]
    # ---- never two open connections ------------------------------------------------------
    for i, a in enumerate(conns):
        for b in conns[i + 1:]:
            a_end = a.closed_at if a.closed_at is not None else float("inf")
            if b.opened_at < a_end - 1e-9:
                violations.append(_vio("two-open-connections", {"first": [a.opened_at, a.closed_at], "second": [b.opened_at, b.closed_at]}))
                break
    # ---- callbacks exact --------------------------------------------------------------------
    established = [c for c in conns if end_user is None or c.opened_at <= end_user + 1e-9]
    if len(made) != len(established):
        violations.append(_vio("made-callback-count", {"made": len(made), "established": len(established),
                                                       "made_t": [round(e[0], 3) for e in made], "opened_t": [round(c.opened_at, 3) for c in conns]},
                               flavour=flavour, sign="more" if len(made) > len(established) else "fewer"))
    closed = [c for c in established if c.closed_at is not None]
    if len(lost) != len(closed):
        violations.append(_vio("lost-callback-count", {"lost": len(lost), "closed": len(closed), "lost_t": [round(e[0], 3) for e in lost],
                                                       "closed_t": [round(c.closed_at, 3) for c in closed], "losses": losses},
                               flavour=flavour, sign="more" if len(lost) > len(closed) else "fewer"))
    for ev in made + lost:
        if ev[2] is not gateway:
            violations.append(_vio("callback-args", {"event": ev[1], "arg": repr(ev[2])}))
    for ev in lost:
        if ev[3] is not None and not isinstance(ev[3], BaseException):
            violations.append(_vio("callback-args", {"event": "lost", "exc": repr(ev[3])}))
    user_losses = [l for l in losses if l["user"]]
    if user_losses and lost:
        last = lost[-1]
        if len(lost) == len(closed) and last[3] is not None and abs(last[0] - user_losses[-1]["t"]) < 0.5:
            violations.append(_vio("callback-args", {"event": "lost", "note": "user disconnect must report None", "exc": repr(last[3])}))
    attempts = dev.attempts
    # ---- the gateway never drops a link on its own while the peer answers ---------------------------
    if cfg["mode"] in ("events", "stop_during_retry"):
        hit = {l["conn"] for l in losses}
        for conn in conns:
            if conn.closed_at is None or conn.conn_id in hit:
                continue
            if end_user is not None and conn.closed_at >= end_user - 1e-9:
                continue
            violations.append(_vio("healthy-link-dropped", {"conn": conn.conn_id, "opened_at": round(conn.opened_at, 3),
                                                            "closed_at": round(conn.closed_at, 3), "rt": rt,
                                                            "attempts": [(round(a[0], 3), a[1]) for a in attempts][:8]}, flavour=flavour))
            break
    # ---- reconnect supervision ----------------------------------------------------------------------
    attempts = dev.attempts
    fail_time = {"fail": 0.0, "timeout": rt, "unreach": min(1.0, rt) if is_async else min(3.0, rt), "slow": 0.0}
    t_end = sim.now
    for i, (t, outcome, _args) in enumerate(attempts):
        if outcome in ("ok", "slow"):
            continue
        if end_user is not None and t + fail_time[outcome] + rt > end_user - 1e-6:
            continue
        want = t + fail_time[outcome] + rt
        if want + slack >= t_end:
            continue
        nxt = attempts[i + 1][0] if i + 1 < len(attempts) else None
        if nxt is None or not want - 0.001 <= nxt <= want + slack:
            violations.append(_vio("retry-spacing", {"attempt": [round(t, 3), outcome], "next": nxt, "want": round(want, 3), "rt": rt,
                                                     "attempts": [(round(a[0], 3), a[1]) for a in attempts][:10]}, outcome=outcome, flavour=flavour))
            break
    for loss in losses:
        if loss["user"]:
            continue
        conn = conns[loss["conn"]]
        probes["losses"] = probes.get("losses", 0) + 1
        if end_user is not None and end_user <= loss["t"] + 2.6 * rt + 0.7:
            continue
        if conn.closed_at is None:
            violations.append(_vio("loss-not-detected", {"loss": loss, "rt": rt}, kind=loss["kind"], flavour=flavour))
            continue
        deadline = conn.closed_at + slack
        follow = [a for a in attempts if conn.closed_at - 0.05 <= a[0] <= deadline]
        if not follow:
            violations.append(_vio("no-reconnect-after-loss", {"loss": loss, "closed_at": conn.closed_at,
                                                               "attempts": [(round(a[0], 3), a[1]) for a in attempts][:10]},
                                   kind=loss["kind"], flavour=flavour))
        else:
            probes["reconnects_after_loss"] = probes.get("reconnects_after_loss", 0) + 1
        if loss["kind"] == "peer_eof" and not is_async:
            probes["watchdog_expiry"] = 1
    # spurious attempts: every attempt is the first, follows a failed attempt, or follows a closed connection
    for i, (t, outcome, _args) in enumerate(attempts):
        if i == 0:
            continue
        prev = attempts[i - 1]
        after_fail = prev[1] not in ("ok", "slow")
        after_close = any(c.closed_at is not None and c.closed_at - 0.05 <= t for c in conns)
        if not after_fail and not after_close:
            violations.append(_vio("spurious-connect-attempt", {"t": t, "attempts": [(round(a[0], 3), a[1]) for a in attempts][:10]}))
            break
    # ---- after stop / disconnect ----------------------------------------------------------------------
    if stop_returned is not None:
        late_w = [w for w in dev.writes if w[0] > stop_returned + 1e-9]
        late_a = [a for a in attempts if a[0] > stop_returned + 1e-9]
        late_cb = [e for e in world.conn_events if e[0] > stop_returned + 1e-9]
        late_ev = [c for c in world.callbacks[-0:] if False]
        if late_w:
            violations.append(_vio("write-after-stop", {"writes": [(round(w[0], 3), w[4][:30]) for w in late_w][:5]}, flavour=flavour))
        if late_a:
            violations.append(_vio("connect-after-stop", {"attempts": [(round(a[0], 3), a[1]) for a in late_a][:5], "stop": stop_returned}, flavour=flavour))
        if late_cb:
            violations.append(_vio("callback-after-stop", {"callbacks": [(round(e[0], 3), e[1]) for e in late_cb][:5], "stop": stop_returned}, flavour=flavour))
        _ = late_ev
    elif user_disc is not None:
        late_a = [a for a in attempts if a[0] > user_disc + 1e-9]
        if late_a:
            # Transport.disconnect() is not part of the documented API and the statement only speaks
            # about stop(): reported as a probe, not as a violation
            probes["connect_after_user_disconnect"] = 1
    # ---- TCP watchdog -----------------------------------------------------------------------------------
    if flavour in ("tcp", "atcp"):
        by_conn = {}
        for t, cid in dev.probes:
            by_conn.setdefault(cid, []).append(t)
        for cid, times in by_conn.items():
            for a, b in zip(times, times[1:]):
                if b - a < rt - 1e-6:
                    violations.append(_vio("probe-spacing", {"times": [round(x, 3) for x in times][:8], "rt": rt}, flavour=flavour))
                    break
        if cfg["mode"] == "watchdog_ok":
            dropped = [c for c in conns if c.closed_at is not None]
            if dropped:
                violations.append(_vio("healthy-link-dropped", {"closed_at": [c.closed_at for c in dropped], "rt": rt, "lat": cfg["lat"][:8]}, flavour=flavour))
            probes["watchdog_ok_runs"] = 1
        if cfg["mode"] == "watchdog_silence" and conns:
            first = conns[0]
            ptimes = by_conn.get(first.conn_id, [])
            ans = [a[1] for a in dev.answers if a[2] == first.conn_id]
            t0 = max(ans) if ans else first.opened_at
            if first.closed_at is None:
                violations.append(_vio("silent-link-not-dropped", {"t0": t0, "rt": rt, "probes": [round(x, 3) for x in ptimes][:8]}, flavour=flavour))
            else:
                delay = first.closed_at - t0
                # the asyncio flavour looks at the watchdog once per reconnect_timeout + 0.1 s, so an
                # expiry is noticed up to one such interval late ("about twice"): bound 3 rt + 0.5 there
                upper = 3.0 * rt + 0.5 if is_async else 2.5 * rt + 0.5
                if not 2 * rt - 1e-6 <= delay <= upper:
                    violations.append(_vio("watchdog-timing", {"t0": round(t0, 3), "closed_at": round(first.closed_at, 3), "delay": round(delay, 3), "rt": rt},
                                           flavour=flavour, sign="late" if delay > upper else "early"))
                upper2 = 3.0 * rt + 0.5 if is_async else 2.5 * rt + 0.5
                for later in conns[1:]:
                    # a link established after the loss and silent throughout: dropped as well (if the run lasted long enough to tell)
                    if later.closed_at is None and not [a for a in dev.answers if a[2] == later.conn_id] and sim.now - later.opened_at > upper2 + 0.3 and not violations:
                        violations.append(_vio("silent-link-not-dropped", {"t0": round(later.opened_at, 3), "rt": rt, "connection": later.conn_id, "now": round(sim.now, 3),
                                                                           "probes": [round(x, 3) for x in by_conn.get(later.conn_id, [])][:8]}, flavour=flavour, which="re-dialled"))
                    elif later.closed_at is not None:
                        probes["silent_redialled_link_dropped"] = 1
                redial = [a for a in attempts if first.closed_at - 0.05 <= a[0] <= first.closed_at + slack]
                if not redial:
                    violations.append(_vio("no-reconnect-after-loss", {"loss": "watchdog", "closed_at": first.closed_at,
                                                                       "attempts": [(round(a[0], 3), a[1]) for a in attempts][:10]},
                                           kind="watchdog", flavour=flavour))
                probes["watchdog_expiry"] = 1
