"""C16 - sending races safely with connection loss and shutdown."""
import collections
import hashlib
import os

import serial as _real_serial

from sim import kernel
from sim import world as W

ID = "C16"
LEVEL = "exploration"
RULE = ("real SerialGateway / TCPGateway with real poll thread, reader thread and connect thread under the baton scheduler; scenario A: "
        "a controller thread queues uniquely tagged commands while a second thread injects one of {read error, user disconnect(), "
        "stop(), read error followed by immediate reconnect, peer close/reset (TCP)}; scenario B: 2-4 producer threads queue tagged "
        "commands while the link stays up; scenario F(lood): the pump is stalled 1.5 s inside one write while three producers queue "
        "120-390 commands (all must still go out exactly once, in queue order). Schedules: PCT-style (1-3 forced pre-emptions) or random-walk pre-emption at source-line "
        "events inside the window {Transport.send, SyncTransport.send, ReaderThread.write/close/stop/run, TCPTransport.write/run, "
        "connection_lost, _connection_lost, connection_made, disconnect, sync_connect, _poll_queue, add_job, run_job}. Oracle: the poll "
        "thread never dies; every command is written at most once (A) / exactly once in queue order (B), in one piece, to a connection "
        "open at that instant; afterwards a probe command is sent on the live connection. non-trivial = a pre-emption happened inside "
        "send between the liveness test and the write, or the teardown ran while commands were queued; distinct = distinct "
        "(thread role, function, line) switch sequences")
TIERS = {
    "quick": {"runs": 3500, "max_wall": 240, "minimise_s": 25, "chunk": 100},
    "thorough": {"runs": 150000, "max_wall": 3000, "minimise_s": 60, "chunk": 500},
}
FAULT_KINDS = ["read error", "user disconnect", "stop", "read error + reconnect", "peer close (tcp)", "peer reset (tcp)", "slow sendall (send buffer nearly full, tcp)", "write that stalls while hundreds of commands pile up", "stalled pump thread (descheduled 0.15-0.6 s with a command in hand)", "disconnect()/stop() at the moment the pump is inside a successful write"]
REAL = ["mysensors.transport", "mysensors.task (SyncTasks._poll_queue)", "mysensors.gateway_serial.sync_connect", "mysensors.gateway_tcp (TCPTransport, sync_connect)",
        "serial.threaded.ReaderThread", "handlers for the commands"]
STUBS = ["thread scheduling (baton + sys.settrace line pre-emption)", "threading.Lock/Event (SimLock/SimEvent)", "serial port / socket / select", "clock"]
ASSUMPTIONS = ["pre-emption at Python source lines of the listed functions and at every blocking shim call; C-level sections are atomic (GIL)",
               "the only write fault injected is the one of event both_errors (the command under that write is legitimately lost)"]
REQUIRED_PROBES = ["teardown_while_queued", "preempted_runs", "probe_answered"]

WINDOW_NAMES = {"send", "write", "close", "stop", "run", "connection_lost", "_connection_lost", "connection_made", "_connection_made",
                "disconnect", "sync_connect", "_poll_queue", "add_job", "run_job", "connect", "_check_socket", "handle_line", "data_received",
                # where the pump drains a sleeping node's queue and where controller threads append to it
                "handle_smartsleep", "_route_message", "is_sensor", "_connect_once"}
WINDOW_FILES = ("transport.py", "task.py", "threaded.py", "gateway_tcp.py", "gateway_serial.py", "handler.py", "__init__.py")
EVENTS_SERIAL = ["read_error", "disconnect", "stop", "read_error_reconnect", "both_errors", "write_error_stop", "disconnect_at_write", "stop_at_write", "none"]
EVENTS_TCP = EVENTS_SERIAL + ["peer_reset", "peer_eof"]


def window(code):
    return code.co_name in WINDOW_NAMES and os.path.basename(code.co_filename) in WINDOW_FILES


class RecordingDeque(collections.deque):
    """Harness-side observation of the append order (instance attribute swap)."""

    def __init__(self, *args):
        super().__init__(*args)
        self.appended = []

    def append(self, item):
        self.appended.append(item)
        super().append(item)

    # a command put in FRONT of commands that other threads queued earlier overtakes them; the only legitimate front insertion
    # is the pump's own (the follow-up jobs of the line it is handling)
    def appendleft(self, item):
        self._note_front()
        super().appendleft(item)

    def extendleft(self, items):
        items = list(items)
        if items:
            self._note_front()
        super().extendleft(items)

    def _note_front(self):
        sim = kernel.CURRENT
        role = sim.current.role if sim is not None and sim.current is not None else "?"
        if role != "_poll_queue" and len(self):
            self.jumped = getattr(self, "jumped", []) + [(role, len(self))]


def gen(rng, tier, index):
    flavour = rng.choice(["serial", "tcp"])
    scenario = rng.choice(["A", "A", "A", "B", "S"])
    if rng.random() < 0.04:
        scenario = "F"
    policy = rng.choice(["pct", "pct", "rw", "rw"])
    sched = {"policy": policy, "seed": rng.getrandbits(32)}
    if policy == "pct":
        sched["k"] = rng.choice([1, 2, 3])
        sched["horizon"] = rng.choice([150, 400, 1200])
        if scenario != "F" and rng.random() < 0.6:
            # the change points are counted from the moment producers and teardown thread are released (not from
            # the start of the run, whose connect phase and idle poll loops would swallow most of them), so that
            # they fall into the line events in which pump, reader, producers and the tearing-down thread overlap
            sched["arm"] = True
            sched["horizon"] = rng.choice([30, 80, 200, 500])
    else:
        sched["p"] = rng.choice([0.01, 0.03, 0.08, 0.2])
    if rng.random() < 0.5:
        sched["sleep_slack"] = 0.02  # sleeping threads may wake together with something else due within 20 ms
    if scenario != "F" and rng.random() < 0.15:
        # the pump may be descheduled for 0.15 / 0.6 s with a command in hand (before or after the write) while
        # producers and the tearing-down thread go on
        sched["stall"] = {"p": rng.choice([0.05, 0.15]), "durations": [0.15, 0.6]}
    events = EVENTS_TCP if flavour == "tcp" else EVENTS_SERIAL
    event = rng.choice(events) if scenario == "A" else "none"
    return {"cfg": {"flavour": flavour, "slow_lost_callback": rng.choice([2.5, "join", "join"]) if event in ("both_errors", "read_error_reconnect") and rng.random() < 0.6 else 0, "version": rng.choice(["1.4", "2.0", "2.2"]) if scenario != "S" else rng.choice(["2.0", "2.1", "2.2"]), "scenario": scenario,
                    "event": event,
                    # F(lood): the pump is held up in one slow write while the producers queue hundreds of commands
                    "n_cmds": rng.randint(1, 6) if scenario != "F" else rng.choice([40, 90, 130]),
                    "producers": rng.randint(2, 4) if scenario in ("B", "S") else (3 if scenario == "F" else 1), "gaps": [rng.choice([0, 0, 0.005, 0.02, 0.03]) for _ in range(8)],
                    "event_delay": rng.choice([0, 0, 0.001, 0.01, 0.02, 0.0205, 0.04]), "sched": sched,
                    "slow_send": flavour == "tcp" and rng.random() < 0.4, "at_write_horizon": rng.choice([3, 6, 12]),
                    "send_on_made": event in ("read_error", "read_error_reconnect", "both_errors", "peer_reset", "peer_eof") and rng.random() < 0.4, "long_cmds": scenario != "F" and rng.random() < 0.4}}


def _vio(cls, detail, **sig):
    sig["class"] = cls
    return {"class": cls, "detail": detail, "signature": sig, "owner": "C16"}


def run(case):
    cfg = case["cfg"]
    gw_opts = {"protocol_version": cfg["version"]}
    if cfg["scenario"] == "F" and cfg["flavour"] == "tcp" and not cfg.get("slow_send"):
        # the watchdog's version probe falls due (1.2 s after the connect) while the backlog is waiting behind the stalled
        # write (which ends 1.6 s after it); it is answered well before the 2.4 s the watchdog allows
        gw_opts["reconnect_timeout"] = 1.2
    world = W.World(cfg["flavour"], gw_opts, sched=cfg["sched"], window=window, max_steps=300_000 if cfg["scenario"] != "F" else 2_000_000)
    sim = world.sim
    violations, probes = [], {}
    incomplete = None
    try:
        try:
            gateway = world.build()
            world.device.slow_send = bool(cfg.get("slow_send"))
            # (same kind of queue as the library made - also the same bound, if it ever gets one)
            rec = RecordingDeque(gateway.tasks.queue, gateway.tasks.queue.maxlen)
            gateway.tasks.queue = rec
            world.start()
            world.feed("1;255;0;0;17;2.0\n1;1;0;0;23;x\n")
            wake = None
            if cfg["scenario"] == "S":
                # a smart-sleep node whose every wake-up makes the pump queue follow-up jobs (held reply +
                # desired value) while the producers keep queueing commands for the awake node 1
                wake = "3;255;3;0;32;5\n" if cfg["version"] == "2.2" else "3;255;3;0;22;5\n"
                world.feed("3;255;0;0;17;2.0\n3;1;0;0;23;y\n" + wake + "3;1;1;0;24;r\n")
                gateway.set_child_value(3, 1, 24, "want")
            base_w = len(world.device.writes)
            conn0 = world.device.current()
            tags = []

            held_calls = []

            def producer(pid):
                for i in range(cfg["n_cmds"]):
                    tag = f"p{pid}c{i}"
                    if cfg.get("long_cmds") and (pid + i) % 2 == 0:
                        tag += "-" + "long text payload " * 4  # a command of some 90 bytes (long V_TEXT, firmware block)
                    if cfg["scenario"] == "S" and (pid + i) % 2 == 0:
                        # a command for the SLEEPING node (a child it never presented): the presentation request it
                        # provokes is withheld in that node's queue, which the pump drains at every wake-up
                        gateway.set_child_value(3, 77, 24, tag)
                        held_calls.append(tag)
                        kernel.TimeShim.sleep(cfg["gaps"][(pid + i) % len(cfg["gaps"])])
                        continue
                    tags.append(tag)
                    gateway.set_child_value(1, 1, 24, tag)
                    if cfg["scenario"] != "F" or i % 16 == 15:
                        kernel.TimeShim.sleep(cfg["gaps"][(pid + i) % len(cfg["gaps"])])

            def teardown():
                kernel.TimeShim.sleep(cfg["event_delay"])
                event = cfg["event"]
                if rec:
                    probes["teardown_while_queued"] = 1
                if event == "write_error_stop":
                    # the pump's next write fails (it closes the link and asks for a reconnect from its error handler) and
                    # at that very moment the application stops the gateway from another thread
                    conn0.fail_write(_real_serial.SerialException("write failed") if cfg["flavour"] == "serial" else BrokenPipeError(32, "Broken pipe"))
                    failing = kernel.SimEvent()

                    def write_fails(conn, _data):
                        if conn is conn0 and conn.write_exc is not None and not failing.is_set():
                            probes["write_error_with_concurrent_stop"] = 1
                            sim.pct_arm(horizon=40)
                            failing.set()

                    world.device.write_hook = write_fails
                    if failing.wait(2.0):
                        gateway.stop()
                    else:
                        conn0.write_exc = None
                        probes["write_error_stop_not_fired"] = 1
                    return
                if event in ("disconnect_at_write", "stop_at_write"):
                    # the application tears the link down at the very moment the pump is inside a (successful) write: whatever
                    # the pump does with the port right AFTER the write (flush, bookkeeping) meets a closed one
                    seen = kernel.SimEvent()

                    def on_write(conn, _data):
                        if conn is conn0 and not seen.is_set():
                            sim.pct_arm(horizon=cfg.get("at_write_horizon", 8))
                            seen.set()

                    world.device.write_hook = on_write
                    if seen.wait(2.0):
                        probes["teardown_at_a_write"] = 1
                        if event == "stop_at_write":
                            gateway.stop()
                        else:
                            gateway.tasks.transport.disconnect()
                    return
                if event in ("read_error", "read_error_reconnect", "both_errors"):
                    exc = _real_serial.SerialException("device gone") if cfg["flavour"] == "serial" else OSError(5, "Input/output error")
                    if event == "both_errors":
                        # the loss is noticed by the pump (its next write fails) AND, at that very moment, by the reader
                        # (read error): both run the loss handling and both ask for a reconnect
                        conn0.fail_write(_real_serial.SerialException("write failed") if cfg["flavour"] == "serial" else BrokenPipeError(32, "Broken pipe"))
                        fired = []

                        def break_link(conn, _data):
                            if conn is conn0 and conn.write_exc is not None and not fired:
                                fired.append(1)
                                probes["write_and_read_error_together"] = 1
                                conn.fail_read(exc)

                        world.device.write_hook = break_link
                        return
                    conn0.fail_read(exc)
                elif event == "disconnect":
                    gateway.tasks.transport.disconnect()
                elif event == "stop":
                    gateway.stop()
                elif event == "peer_reset":
                    conn0.reset = True
                    conn0._wake_reader("reset")
                elif event == "peer_eof":
                    conn0.eof = True
                    conn0._wake_reader("eof")

            if cfg["event"] == "read_error":
                world.device.connect_plan = ["fail", "fail", "ok"]
            if cfg.get("slow_lost_callback"):
                # the application's on_conn_lost callback is slow (longer than the 2 s the closing side waits for the
                # reader thread): the loss handling of reader and pump then really overlap
                def slow_lost(_kind, _exc):
                    probes["slow_lost_callback"] = 1
                    if cfg["slow_lost_callback"] != "join":
                        sim.sleep(cfg["slow_lost_callback"])
                        return
                    # ... exactly as long as the closing side is prepared to wait for this (reader) thread: the callback
                    # returns at the instant the pump's join(2) gives up, so both go on to ask for a reconnect together
                    t0, saw_join = sim.now, False
                    while sim.now - t0 < 4.0:
                        pump = next((t for t in sim.threads if t.role == "_poll_queue"), None)
                        joining = pump is not None and pump.state == kernel.BLOCKED and pump.waiting and pump.waiting[0] == "join"
                        if joining and not saw_join:
                            saw_join = True
                            # (PCT runs) count the change points from the instant that join gives up
                            when = next((w for w, _s, tok, _f in sim.heap if tok is pump.token), None)
                            if when is not None:
                                sim.call_at(when, lambda: sim.pct_arm(horizon=12))
                        elif joining:
                            pass
                        elif saw_join:
                            probes["lost_callback_returned_with_join_timeout"] = 1
                            break
                        sim.sleep(0.005)

                world.conn_hook = slow_lost
            if cfg.get("send_on_made"):
                # the application greets every new connection from its connection-made callback (a direct Gateway.send(),
                # in the thread that established the link) - also the one made while the pump is dealing with a lost one
                def greet(gw):
                    probes["sent_from_made_callback"] = probes.get("sent_from_made_callback", 0) + 1
                    gw.send("0;255;3;0;18;\n")

                world.made_hook = greet
            if cfg["scenario"] == "F":
                stalled = []

                def stall(_conn, _data):
                    # the first write of the production phase does not return for a while (flow control, a hanging port)
                    if not stalled:
                        stalled.append(sim.now)
                        probes["pump_stalled_in_write"] = 1
                        sim.sleep(1.5)

                world.device.write_hook = stall
            sim.pct_arm()
            for pid in range(cfg["producers"]):
                sim.spawn(producer, pid, role="controller")
            if cfg["scenario"] == "A":
                sim.spawn(teardown, role="teardown")
            if wake is not None:
                # a controller thread that is released at the very instant the pump starts on a wake-up of node 3 and
                # then queues a command for that (sleeping) node: the pump is draining the node's queue meanwhile
                wake_seen = kernel.SimEvent()
                racing = {"on": True, "n": 0}

                def on_logic(line):
                    if racing["on"] and str(line).startswith("3;255;3;0;"):
                        wake_seen.set()

                def racer():
                    while racing["on"]:
                        if not wake_seen.wait(0.5):
                            continue
                        wake_seen.clear()
                        if not racing["on"]:
                            break
                        racing["n"] += 1
                        tag = f"race{racing['n']}"
                        gateway.set_child_value(3, 77, 24, tag)
                        held_calls.append(tag)
                        probes["command_for_sleeping_node_during_its_wakeup"] = 1

                world.logic_hook = on_logic
                sim.spawn(racer, role="controller")
                for i in range(6):
                    sim.sleep(cfg["gaps"][i % len(cfg["gaps"])] or 0.013)
                    sim.pct_arm()  # (PCT runs: the change points are counted anew from every wake-up)
                    world.device.inject(("3;1;2;0;24;\n" + wake).encode())  # a value request (held) and the next wake-up
                    probes["wakeups_during_production"] = probes.get("wakeups_during_production", 0) + 1
            sim.sleep((1.0 if cfg["scenario"] != "F" else 4.0) + (7.0 if cfg.get("slow_lost_callback") else 0))
            for _ in range(120):
                # (slow sends and coalesced sleeps can make the pump take longer than that to drain a long queue)
                if not gateway.tasks.queue:
                    break
                sim.sleep(0.5)
            sim.sleep(0.3)  # the command the pump has just taken off the queue may still be inside a (slow) send
            for _ in range(60):
                if not sim.stalled() and not gateway.tasks.queue:
                    # (a stall may be followed at once by the next one, or by a slow send: only a quiet 0.3 s counts)
                    sim.sleep(0.3)
                    if not sim.stalled() and not gateway.tasks.queue:
                        break
                    continue
                sim.sleep(0.1)  # ... or its thread is sitting out an injected stall with the command in hand
            world.device.write_hook = None
            if cfg["event"] == "both_errors" and not probes.get("write_and_read_error_together"):
                conn0.write_exc = None  # nothing was written after the event: the armed fault is withdrawn
                probes["both_errors_not_fired"] = 1
            if wake is not None:
                racing["on"] = False
                world.logic_hook = None
                sim.sleep(0.6)
            world.settle()
            if wake is not None:
                world.device.inject(wake.encode())  # one last wake-up: everything withheld for node 3 goes out now
                world.settle()
                world.advance(0.1)
            # ---- observations -------------------------------------------------------------
            for role, exc, trace in sim.died:
                if role == "_poll_queue":
                    violations.append(_vio("pump-died", {"exc": exc, "trace": trace[-1500:], "event": cfg["event"]},
                                           exc=exc.split("(")[0], event=cfg["event"]))
                elif role in ("controller", "teardown"):
                    probes["controller_call_raised"] = probes.get("controller_call_raised", 0) + 1
                else:
                    probes["other_thread_died:" + role] = 1
            raw_writes = world.device.writes[base_w:]
            tagset = set(tags)
            seen = collections.Counter()
            order = []
            # what each connection received is the concatenation of the writes made to it: a command may be handed over in
            # several pieces, but what has arrived in the end is whole commands only
            writes, pending = [], {}
            for t_w, seq_w, conn_id, is_open, data in raw_writes:
                buf = pending.get(conn_id, b"") + data
                while b"\n" in buf:
                    line, _, buf = buf.partition(b"\n")
                    writes.append((t_w, seq_w, conn_id, is_open, line + b"\n"))
                pending[conn_id] = buf
            for conn_id, buf in sorted(pending.items()):
                if buf:
                    writes.append((None, None, conn_id, True, buf))
            if len(raw_writes) > len(writes):
                probes["commands_written_in_pieces"] = 1
            for _t, _seq, conn_id, is_open, data in writes:
                text = data.decode("utf-8", "replace")
                if text.startswith("0;255;3;0;2;"):
                    continue
                if not (text.endswith("\n") and text.count("\n") == 1):
                    if cfg["event"] in ("read_error", "read_error_reconnect", "both_errors", "write_error_stop", "peer_reset", "peer_eof") and conn_id == conn0.conn_id:
                        # the link itself failed under the write: a torn command on the dead link is what a
                        # write error legitimately leaves behind
                        probes["partial_write_on_failed_link"] = 1
                    else:
                        violations.append(_vio("partial-write", {"data": text, "conn": conn_id, "event": cfg["event"]}, event=cfg["event"]))
                    continue
                payload = text[:-1].split(";", 5)[-1]
                if payload not in tagset and payload != "probe":
                    continue  # bursts for the sleeping node (scenario S) are C08's business
                seen[payload] += 1
                order.append(payload)
                if not is_open:
                    violations.append(_vio("write-on-closed-connection", {"data": text, "conn": conn_id, "event": cfg["event"]}, event=cfg["event"]))
            for tag, count in seen.items():
                if count > 1:
                    violations.append(_vio("command-written-twice", {"tag": tag, "count": count, "event": cfg["event"]}, event=cfg["event"]))
            appended = []
            for func, args in rec.appended:
                try:
                    line = func(*args) if getattr(func, "__name__", "") == "encode" else None
                except Exception:  # pylint: disable=broad-except
                    line = None
                if line:
                    appended.append(line[:-1].split(";", 5)[-1])
            appended = [a for a in appended if a in set(tags)]
            if cfg["scenario"] == "S" and not violations:
                pres = sum(1 for w in writes if w[4] == b"3;255;3;0;19;\n")
                if pres != len(held_calls):
                    violations.append(_vio("withheld-command-count", {"calls_for_sleeping_node": len(held_calls), "presentation_requests_written": pres},
                                           sign="fewer" if pres < len(held_calls) else "more"))
                elif held_calls:
                    probes["withheld_commands_all_sent_once"] = 1
            if getattr(rec, "jumped", None) and not violations:
                violations.append(_vio("commands-out-of-queue-order", {"note": "a thread other than the pump put a command in front of commands queued earlier",
                                                                      "who_and_queue_length": rec.jumped[:4]}, how="front-insertion"))
            if cfg["scenario"] in ("B", "S", "F") and not violations:
                missing = [t for t in tags if seen[t] == 0]
                if missing:
                    violations.append(_vio("command-lost-with-link-up", {"missing": missing, "written": order}))
                elif [o for o in order if o in set(tags)] != appended:
                    violations.append(_vio("commands-out-of-queue-order", {"appended": appended, "written": order}))
            dropped = [t for t in tags if seen[t] == 0]
            if dropped:
                probes["commands_dropped"] = len(dropped)
            # ---- liveness probe on the surviving link ----------------------------------------
            if cfg["event"] in ("read_error", "read_error_reconnect", "both_errors", "peer_reset", "none") and not violations:
                world.advance(25.0 if cfg["event"] == "read_error" else 0.5)
                if cfg["event"] == "peer_reset" or cfg["flavour"] == "tcp":
                    world.advance(0.5)
                live = world.device.current()
                if live is not None and gateway.tasks.transport.protocol is not None and gateway.tasks.transport.protocol.transport is not None:
                    mark = len(world.device.writes)
                    gateway.set_child_value(1, 1, 24, "probe")
                    world.settle()
                    world.advance(0.1)
                    got = [w for w in world.device.writes[mark:] if b";probe\n" in w[4]]
                    for role, exc, trace in sim.died:
                        if role == "_poll_queue" and not any(v["class"] == "pump-died" for v in violations):
                            violations.append(_vio("pump-died", {"exc": exc, "trace": trace[-1500:], "event": cfg["event"]},
                                                   exc=exc.split("(")[0], event=cfg["event"]))
                    if got:
                        probes["probe_answered"] = 1
                    elif not violations:
                        violations.append(_vio("pump-silent-on-live-link", {"event": cfg["event"], "threads": sim.describe()}, event=cfg["event"]))
                else:
                    probes["no_live_link_after_event"] = 1
            if sim.preemptions:
                probes["preempted_runs"] = 1
        except kernel.SimAbort as exc:
            incomplete = str(exc)
        except kernel.Deadlock as exc:
            incomplete = "deadlock: " + str(exc)[:200]
    finally:
        digest = sim.digest()
        steps = sim.steps
        inter = sim.switch_digest() if sim.preemptions else None
        sched = sim.decisions()
        now = sim.now
        pre = sim.preemptions
        stalls = sim.stats.get("fault_stall", 0)
        world.close()
    nontrivial = bool(pre and (probes.get("teardown_while_queued") or cfg["scenario"] in ("B", "S", "F")))
    return {"violations": violations, "digest": digest, "nontrivial": nontrivial, "key": inter or digest, "probes": probes,
            "faults": dict({cfg["event"]: 1}, **({"stalled_thread": stalls} if stalls else {})), "steps": steps, "sim_seconds": now, "incomplete": incomplete, "interleaving": inter,
            "sched": sched, "states": [],
            "sample": {"cfg": {k: v for k, v in cfg.items() if k != "gaps"}, "preemptions": pre, "schedule": sched if pre <= 6 else "..."}}
