"""W-net harness shared by the history properties (C01, C04-C08, C10, C11, C14).

One executor (real gateway in the simulated world, stepped op by op) and one
set of oracles (reference model in lock-step).  Each property's check module
chooses a generator profile and the violation classes it owns.
"""
import copy
import hashlib
import json
import re

import voluptuous as vol

from model import tables
from model import gateway_model
from model.gateway_model import GatewayModel
from model.ota_model import crc16_modbus, intel_hex, le16, unle16
from sim import broker as simbroker
from sim import fs as simfs
from sim import kernel
from sim import world as W

PROBE_PREFIX = "0;255;3;0;2;"  # TCP watchdog probe (time driven, filtered)

# violation class -> owning property
OWNER = {
    "thread-died": "C01", "loop-exception": "C01", "logic-raised": "C01", "recv-raised": "C01",
    "rejected-line-had-effect": "C01", "connection-torn-down": "C01",
    "state-mismatch": "C04", "callback-missing": "C04", "callback-spurious": "C04",
    "callback-args": "C04", "callback-before-state": "C04", "id-node-missing": "C04", "callback-raise-escaped": "C04",
    "reply-missing": "C05", "reply-spurious": "C05", "reply-wrong": "C05",
    "emitted-malformed": "C05", "emitted-invalid": "C05", "misaddressed": "C05", "time-reply-wrong": "C05",
    "id-out-of-range": "C06", "id-reused": "C06", "id-request-raised": "C06", "id-known": "C06", "id-response-missing": "C06",
    "sent-while-asleep": "C07", "awake-delayed": "C07",
    "burst-missing": "C08", "burst-spurious": "C08", "burst-order": "C08", "burst-raised": "C08",
    "ota-reply-missing": "C10", "ota-reply-spurious": "C10", "ota-reply-wrong": "C10",
    "ota-malformed-changed-session": "C10", "ota-malformed-replied": "C10", "ota-request-raised": "C10", "reboot-missing": "C10",
    "reboot-spurious": "C10",
    "ota-advertised-wrong": "C09", "ota-block-wrong": "C09", "ota-block-missing": "C09",
    "restart-lost-state": "C14", "stop-raised": "C14", "load-raised": "C13",
    "roundtrip-mismatch": "C11", "transient-resurrected": "C11", "format-divergence": "C11",
}


def repo_classify(text, version):
    """Tier B: ask the repo's own decoder+validator (outside any gateway)."""
    from mysensors.message import Message  # pylint: disable=import-outside-toplevel
    try:
        msg = Message(text)
    except ValueError:
        return None
    try:
        msg.validate(version)
    except vol.Invalid:
        return None
    try:
        return (int(msg.node_id), int(msg.child_id), int(msg.type), int(msg.ack), int(msg.sub_type), msg.payload)
    except (TypeError, ValueError):
        return None


def classify(text, version):
    """-> (tier, fields|None).  fields None = the line must be rejected."""
    if text.rstrip().count(";") > 5:
        # more than six fields: the payload cannot contain ';' on the wire, so this is never a message
        return "A", None
    if text.count(";") < 5:
        # fewer than six fields (a truncated frame, also one that only lacks its - possibly empty - payload field)
        return "A", None
    fields = tables.parse_canonical(text)
    if fields is not None:
        verdict = tables.valid_frame(version, *fields)
        if verdict is True:
            return "A", fields
        if verdict is False:
            return "A", None
    return "B", repo_classify(text, version)


class Violation(dict):
    pass


def vio(cls, detail, **sig):
    sig = {k: v for k, v in sig.items() if v is not None}
    sig["class"] = cls
    return {"class": cls, "detail": detail, "signature": sig, "owner": OWNER.get(cls)}


def match_item(item, got):
    """Does an emitted line satisfy one expected item?"""
    want = item["line"]
    if item.get("time"):
        if not got.startswith(want):
            return False
        tail = got[len(want):]
        lo, hi = item["time"]
        return tables.canonical_int(tail) and lo <= int(tail) <= hi
    if item.get("ack_free"):
        return strip_ack(got) == strip_ack(want)
    return got == want


def strip_ack(line):
    parts = line.split(";", 5)
    if len(parts) == 6:
        parts[3] = "*"
    return ";".join(parts)


class NetRun:
    """Executes one case."""

    def __init__(self, case, keep_log=False):
        self.case = case
        cfg = case["cfg"]
        self.cfg = cfg
        self.flavour = cfg["flavour"]
        self.version = cfg["version"]
        self.persist = cfg.get("persistence")  # None | "pickle" | "json"
        self.violations = []
        self.probes = {}
        self.faults = {}
        self.states = set()
        self.kinds = set()
        self.op_index = -1
        self.fw_served = {}  # (type, ver) -> advertised blocks
        self.ids_all = []  # every id handed out in any lifetime with intact history
        self.lifetime = 0
        self.clean_history = True
        self.last_cb = 0
        self.last_w = 0
        self.cb_calls = 0
        self.stopped = False
        self.trace = []  # compact per-op trace for samples
        self.poisoned = set()  # nodes whose desired state holds a value the wire cannot carry
        self.stopping = False
        self.inject_at_save = None
        self.link_fault = None
        self.link_is_down = False
        self.slow_callback = 0
        self.stop_from_callback = False
        self.stopped_in_callback = False
        self.fault_at_last_tick = None
        self.state_diverged = False
        self.inject_at_final_save = None
        self.pending_fault = None
        self.renames_seen = 0
        self.last_change_t = -1.0
        self.last_change_kind = None
        self.last_save_t = -2.0
        self.last_kinds = set()
        self.prev_state_hash = None
        self.cur_kind = None
        # the gateway may be configured with an equivalent spelling (2.0.0, 2.2.1, ...): the model
        # works with the floor version the independent rule assigns to it
        gw_kwargs = {"protocol_version": cfg.get("version_str", self.version)}
        assert tables.version_floor(gw_kwargs["protocol_version"]) == self.version
        self.fs = simfs.SimFS(bufsize=cfg.get("bufsize", 8192))
        if cfg.get("slow_fsync"):
            self.fs.op_delay["fsync"] = float(cfg["slow_fsync"])
        if self.persist:
            gw_kwargs["persistence"] = True
            gw_kwargs["persistence_file"] = f"/work/mysensors.{self.persist}"
        broker = None
        if W.is_mqtt(self.flavour):
            broker = simbroker.SimBroker(cfg.get("in_prefix", ""), cfg.get("out_prefix", ""),
                                         pub_raise=cfg.get("pub_raise", ()), sub_raise=cfg.get("sub_raise", ()))
            gw_kwargs["in_prefix"] = broker.in_prefix
            gw_kwargs["out_prefix"] = broker.out_prefix
            if "retain" in cfg:
                gw_kwargs["retain"] = cfg["retain"]
        self.world = W.World(self.flavour, gw_kwargs, sched=cfg.get("sched"), epoch=cfg.get("epoch", 1_600_000_000.0),
                             utc_offset=cfg.get("utc_offset", 0), fs=self.fs, broker=broker, keep_log=keep_log,
                             max_steps=cfg.get("max_steps", 400_000),
                             window=(lambda code, names=frozenset(cfg["window"]): code.co_name in names) if cfg.get("window") else None)
        self.broker = broker
        kind = "tcp" if self.flavour in ("tcp", "atcp") else ("mqtt" if broker else "plain")
        self.model = GatewayModel(self.version, kind)
        self.cb_raise = set(cfg.get("cb_raise", ()))
        self.cb_raise_entries = []
        self.world.event_hook = self._event_hook
        self.fs.trace = self._fs_trace
        self.tick_times = []
        self.saves_running = 0
        self.world.sim.save_hook = self._save_hook

    # ------------------------------------------------------------------ plumbing
    def _fs_trace(self, opname, path):
        if self.pending_fault is not None and self.fs.armed:
            want = self.pending_fault[0]
            if want == "rename2" and opname == "rename":
                self.renames_seen += 1
                if self.renames_seen >= 2:
                    self.fs.plan[self.fs.opno] = self.pending_fault[1]
                    self.pending_fault = None
            elif opname == want:
                self.fs.plan[self.fs.opno] = self.pending_fault[1]
                self.pending_fault = None
        if opname == "rename" and ".tmp." in path:
            self.last_save_t = self.world.sim.now
            self.probe("saves_completed")

    def _save_hook(self, phase, persistence, exc):
        sim = self.world.sim
        role = sim.current.role if sim.current is not None else "?"
        if phase == "begin":
            if self.fault_at_last_tick is not None:
                if role == "timer" and persistence.need_save:
                    # the scheduled save that stop() is racing with hits a transient fault
                    self.pending_fault, self.fault_at_last_tick = self.fault_at_last_tick, None
                    self.fs.arm({})
                    self.renames_seen = 0
                    self.probe("fault_in_save_racing_with_stop")
                elif role != "timer":
                    self.fault_at_last_tick = None  # stop()'s own save came first: no fault (it may not fail)
            elif self.stopping and role != "timer" and self.pending_fault is not None:
                # the fault was armed for the scheduled save, which has not got to the faulty operation: withdrawn
                self.pending_fault = None
                self.fs.disarm()
            if role in ("timer", "executor") and not self.stopping:
                self.tick_times.append(sim.now)
                if self.pending_fault is not None and persistence.need_save:
                    self.fs.arm({})
                    self.renames_seen = 0
                if self.inject_at_save is not None and persistence.need_save:
                    data, self.inject_at_save = self.inject_at_save, None
                    sim.pct_arm()
                    self.world.device.inject(data)
                    # the saving thread may lose the processor right here, before it has looked at anything
                    sim.yield_point()
            if self.saves_running and persistence.need_save:
                self.probe("save_started_while_another_running")
            self.saves_running += 1
        else:
            self.saves_running -= 1
            if self.stopping and self.inject_at_final_save is not None and role not in ("timer",) and exc is None:
                data, self.inject_at_final_save = self.inject_at_final_save, None
                if self.world.device.current() is not None:
                    self.world.device.inject(data)
                    self.probe("late_line_delivered_during_stop")
                    # a legal schedule: the stopping thread is descheduled for a moment right after its
                    # save, long enough for reader and pump (or the loop) to handle the line
                    self.world.sim.sleep(0.06)
                else:
                    self.probe("late_line_not_deliverable")

    def probe(self, name, n=1):
        self.probes[name] = self.probes.get(name, 0) + n

    def add(self, violation):
        violation["op"] = self.op_index
        self.violations.append(violation)

    def _event_hook(self, msg):
        idx = self.cb_calls
        self.cb_calls += 1
        snap = W.projection(self.world.gateway.sensors)
        if self.stop_from_callback:
            # the application stops the gateway from inside its event callback (on the thread that handles the message)
            self.stop_from_callback = False
            self.faults["stop_from_event_callback"] = self.faults.get("stop_from_event_callback", 0) + 1
            try:
                self.world.gateway.stop()
            except Exception as exc:  # pylint: disable=broad-except
                self.add(vio("stop-raised", {"exc": repr(exc), "where": "inside the event callback"}, exc=type(exc).__name__))
            self.stopped_in_callback = True
        if self.slow_callback:
            # the application's callback takes its time (runs in the thread that handles the message)
            delay, self.slow_callback = self.slow_callback, 0
            self.faults["slow_event_callback"] = self.faults.get("slow_event_callback", 0) + 1
            self.world.sim.sleep(delay)
        if idx in self.cb_raise:
            self.faults["callback_raised"] = self.faults.get("callback_raised", 0) + 1
            self.world.callbacks.append(((msg.node_id, msg.child_id, int(msg.type), msg.ack, int(msg.sub_type), msg.payload), snap))
            if self.world.logic_log:
                self.cb_raise_entries.append(self.world.logic_log[-1])  # the line being handled right now
            # what an application's listener really raises varies: with a message, without one (bare assert, queue.Full,
            # NotImplementedError), with several arguments, a lookup error whose str() is the repr of the key
            kind = idx % 6
            if kind == 0:
                raise RuntimeError("simulated event callback failure")
            if kind == 1:
                raise NotImplementedError
            if kind == 2:
                import queue as _queue  # pylint: disable=import-outside-toplevel
                raise _queue.Full()
            if kind == 3:
                raise KeyError(("node", msg.node_id))
            if kind == 4:
                raise OSError(5, "Input/output error", "/dev/null")
            raise AssertionError()
        return snap

    def out_lines(self):
        """New outbound lines since the last call (watchdog probes filtered)."""
        if self.broker is not None:
            lines = self.broker.out_lines(self.last_w)
            self.last_w = len(self.broker.published)
            return [(ln, True) for ln in lines]
        writes = self.world.device.writes[self.last_w:]
        self.last_w = len(self.world.device.writes)
        out = []
        for _t, _seq, _cid, is_open, data in writes:
            try:
                text = data.decode("utf-8")
            except UnicodeDecodeError:
                text = data.decode("utf-8", "replace")
            wellformed = text.endswith("\n") and text.count("\n") == 1
            text = text[:-1] if text.endswith("\n") else text
            if text == PROBE_PREFIX and self.flavour in ("tcp", "atcp"):
                self.probe("tcp_probe_seen")
                continue
            out.append((text, wellformed))
        return out

    def new_callbacks(self):
        cbs = self.world.callbacks[self.last_cb:]
        self.last_cb = len(self.world.callbacks)
        return cbs

    def health(self):
        """Threads that died / exceptions that escaped into the loop (C01)."""
        sim = self.world.sim
        for role, exc, trace in sim.died:
            if role == "controller":
                continue
            self.add(vio("thread-died", {"role": role, "exc": exc, "trace": trace[-1500:]},
                         role=role, exc=exc.split("(")[0], site=_site(trace)))
        fatal = bool(sim.died)
        sim.died.clear()
        loop = self.world.loop
        if loop is not None and loop.exceptions:
            for msg, exc in loop.exceptions:
                self.add(vio("loop-exception", {"message": msg, "exc": exc}, exc=exc.split("(")[0], message=str(msg).split("(")[0][:60]))
            del loop.exceptions[:]
        if self.broker is not None and self.broker.recv_errors:
            for topic, exc, trace in self.broker.recv_errors:
                self.add(vio("recv-raised", {"topic": topic, "exc": exc, "trace": trace[-1200:]}, exc=exc.split("(")[0], site=_site(trace)))
            del self.broker.recv_errors[:]
        for entry in self.world.logic_log:
            res = entry[2]
            if res and res[0] == "raised":
                fatal = True
                flds = tables.parse_canonical(str(entry[0]))
                if flds is not None and flds[2] == 3 and flds[4] == 3:
                    # the allocator must answer an id request with a fresh id or with silence, not by failing
                    self.add(vio("id-request-raised", {"line": entry[0], "exc": res[1], "msg": res[2]}, exc=res[1]))
                if flds is not None and flds[2] == 4:
                    # a firmware request - well-formed or not - is answered or ignored, it does not fail (C10's reading)
                    self.add(vio("ota-request-raised", {"line": entry[0], "exc": res[1], "msg": res[2]}, exc=res[1]))
                if flds is not None and flds[2] == 3 and flds[4] in (22, 32):
                    # failing at wake-up instead of refusing the desired value at call time
                    self.add(vio("burst-raised", {"line": entry[0], "exc": res[1], "msg": res[2]}, exc=res[1]))
                if any(entry is e for e in self.cb_raise_entries):
                    # C04's side: the failure of the application's listener (or one made while dealing with it) got out of
                    # message processing - "a callback that raises changes nothing else"
                    self.add(vio("callback-raise-escaped", {"line": entry[0], "exc": res[1], "msg": res[2]}, exc=res[1]))
                self.add(vio("logic-raised", {"line": entry[0], "exc": res[1], "msg": res[2]}, exc=res[1]))
        del self.world.logic_log[:]
        if fatal:
            raise StopRun()  # the pump (or another library thread) is gone: nothing after this is meaningful

    # -------------------------------------------------------------------- start
    def _build(self):
        if self.cfg.get("no_callback"):
            return self.world.build(event_callback=None)
        return self.world.build()

    def start(self):
        world = self.world
        if self.cfg.get("prelude_quick_stop") and W.is_async(self.flavour) and self.persist:
            # an application that starts and stops the gateway in one go (no loop iteration in between)
            gateway = self._build()

            async def user():
                await gateway.start_persistence()
                await gateway.stop()

            self.probe("quick_stop_prelude")
            try:
                world.acall(user())
            except kernel.SimAbort:
                raise
            except BaseException as exc:  # pylint: disable=broad-except
                self.add(vio("stop-raised", {"exc": repr(exc), "when": "stop() right after start_persistence()"}, exc=type(exc).__name__,
                             when="immediately"))
            world.settle()
            self.health()
        self._build()
        late = self.persist and self.cfg.get("late_persistence") and self.lifetime == 0
        world.start(persistence=bool(self.persist) and not late)
        if late:
            # the application brings the link up first and enables persistence a moment later: what arrives in between is
            # part of what the gateway holds (and has to reach the file like everything else)
            self.probe("start_persistence_after_start")
            for text in self.cfg["late_persistence"]:
                self.op_line(text)
            world.start_persistence_only()
        self.out_lines()
        self.new_callbacks()
        self.health()

    # ------------------------------------------------------------------ inbound
    def mqtt_map(self, text):
        """How a line travels over MQTT: five topic levels + payload, QoS from the ack
        field.  Returns (topic, payload, qos, line the gateway must see or None when the
        topic is not <in_prefix>/<five levels>)."""
        parts = text.split(";")
        prefix = self.broker.in_prefix
        if len(parts) >= 6:
            levels, payload = parts[:5], ";".join(parts[5:])
        else:
            levels, payload = parts, ""
        topic = prefix + "/" + "/".join(levels)
        try:
            qos = 1 if int(levels[3]) > 0 else 0
        except (ValueError, IndexError):
            qos = 0
        seen = None
        if len(levels) == 5 and not any("/" in lev for lev in levels):
            seen = ";".join(levels[:3] + [str(qos)] + levels[4:5]) + ";" + payload
        return topic, payload, qos, seen

    def send_line(self, text, ending="\n"):
        """Deliver one line; returns (delivered?, None)."""
        world = self.world
        if self.broker is not None:
            topic, payload, qos, _seen = self.mqtt_map(text)
            ok = self.broker.deliver(topic, payload, qos, force=bool(self.cfg.get("mqtt_force")))
            world.settle()
            return ok, None
        ok = world.feed(text.encode("utf-8", "surrogateescape") + ending.encode())
        return ok, text

    def op_line(self, text, ending="\n"):
        return self._deliver_and_observe(text, ending)

    def _deliver_and_observe(self, text, ending, raw=None, at_save=False):
        world = self.world
        gateway = world.gateway
        seen_text = text
        if self.broker is not None:
            seen_text = self.mqtt_map(text)[3]
        else:
            # a byte link: what cannot be UTF-8 (lone surrogates stand for raw bytes) is decoded with "replace"
            seen_text = text.encode("utf-8", "surrogateescape").decode("utf-8", "replace")
        if seen_text is None:
            tier, fields = "A", None
        else:
            tier, fields = classify(seen_text, self.version)
        self.probe("tierA_lines" if tier == "A" else "tierB_lines")
        snap_before = (W.projection(gateway.sensors), W.transient(gateway.sensors), W.ota_state(gateway))
        self._ota_before = snap_before[2]
        conn_before = world.device.current() if self.broker is None else None
        t_before = world.sim.time()
        if at_save == "tick" and self.broker is None:
            # the line is in flight when the next scheduled save fires: in the threaded flavours it sits in
            # the job queue while pump and timer wake at the same instant, in the asyncio flavours it is
            # delivered at the very instant the save task wakes up
            data = text.encode("utf-8", "surrogateescape") + ending.encode()
            wait = ((self.tick_times[-1] if self.tick_times else getattr(world, "persist_t0", 0.0)) + 10.0) - world.sim.now
            lead = 0.0 if W.is_async(self.flavour) else 0.01
            if wait - lead > 0:
                world.sim.sleep(wait - lead)
            world.sim.pct_arm()
            world.device.inject(data)
            self.probe("line_in_flight_at_tick")
            world.advance(0.3)
            ok = True
        elif at_save and self.broker is None:
            # delivered by the save hook at the instant the next scheduled save begins (inside the
            # saving thread); whether the pump handles it before the save ends is the scheduler's call
            self.inject_at_save = text.encode("utf-8", "surrogateescape") + ending.encode()
            wait = (self.tick_times[-1] + 10.0 - world.sim.now) if self.tick_times else 10.1
            world.advance(max(0.0, wait) + 0.3)
            if self.inject_at_save is not None:
                world.feed(self.inject_at_save)
                self.inject_at_save = None
            else:
                self.probe("line_injected_at_save")
            ok = True
        elif raw is not None:
            ok = world.feed(raw)
        else:
            ok, _ = self.send_line(text, ending)
        t_after = world.sim.time()
        out = self.out_lines()
        cbs = self.new_callbacks()
        fatal = False
        try:
            self.health()
        except StopRun:
            fatal = True  # processing raised; what is observable is still compared below, then the run ends
        if self.broker is not None and not ok:
            # not subscribed: the broker never delivers it; nothing may happen
            fields = None
            self.probe("mqtt_not_delivered")
        if (conn_before is not None and not conn_before.is_open and self.link_fault is None and not at_save
                and self.flavour not in ("tcp", "atcp") and getattr(conn_before, "closed_by", None) not in (None, "driver")):
            # no fault was injected and yet the gateway itself closed the link while handling this line ("the gateway keeps
            # receiving and sending afterwards"; a re-dial may follow, what was in flight is gone)
            self.add(vio("connection-torn-down", {"line": text, "closed_by": conn_before.closed_by}, closed_by=conn_before.closed_by))
        if fatal:
            if fields is not None:
                exp = self.model.on_line(fields, (int(t_before), int(t_after)))
                self._check_callbacks(exp, fields, cbs)
            raise StopRun()
        if fields is None:
            if self.link_fault is not None:
                self.link_fault.write_exc = None  # a rejected line has no reply to lose: the armed fault is withdrawn
                self.link_fault = None
            self.probe("rejected_lines")
            snap_after = (W.projection(gateway.sensors), W.transient(gateway.sensors), W.ota_state(gateway))
            if snap_after != snap_before or out or cbs:
                self.add(vio("rejected-line-had-effect",
                             {"line": text, "tier": tier, "out": out[:5], "callbacks": [c[0] for c in cbs][:5],
                              "state_changed": snap_after != snap_before}, tier=tier))
            if out:
                # C05's reading of the same event: "everything else with silence"
                self.add(vio("reply-spurious", {"line": text, "got": [o[0] for o in out][:5], "model_kind": "rejected-line"}, model_kind="rejected-line"))
            self.trace.append(("rej", text[:60]))
            return ok
        self.probe("accepted_lines")
        off = self.cfg.get("utc_offset", 0)
        exp = self.model.on_line(fields, (int(t_before + off), int(t_after + off)))
        self.kinds.add(exp.kind)
        self.cur_kind = exp.kind
        link_fault, self.link_fault = self.link_fault, None
        if link_fault is not None and link_fault.write_exc is None:
            # the armed write error fired while this line was handled: the link broke under the reply /
            # burst.  What was due is lost with the link (or a prefix got out); it may never come later.
            self.faults["write_error_under_reply"] = self.faults.get("write_error_under_reply", 0) + 1
            due = [e["line"] for e in exp.out] + [e["line"] for e in exp.out_set]
            extra = [ln for ln, _ok in out if ln not in due and exp.id_response is None]
            if extra:
                self.add(vio("reply-spurious", {"line": text, "got": extra, "model_kind": exp.kind, "note": "link failed under the reply"},
                             model_kind=exp.kind))
            if exp.wake is not None:
                self.probe("burst_lost_with_link")
            self._check_callbacks(exp, fields, cbs)
            self._check_state(text)
            self._await_link()
            self.trace.append(("ok-linkdrop", text[:60]))
            return ok
        if link_fault is not None:
            link_fault.write_exc = None  # nothing was written for this line: the fault is withdrawn
        self._check_expect(exp, fields, out, cbs, (int(t_before + off), int(t_after + off)), text)
        self._check_state(text)
        self.trace.append(("ok", text[:60], [o[0][:40] for o in out][:4]))
        return ok

    def op_linkdrop(self):
        """Arm one write error (the link breaks) for the reply / burst of the NEXT line."""
        conn = self.world.device.current() if self.broker is None else None
        if conn is None or not conn.is_open or not hasattr(conn, "fail_write") or self.flavour not in ("serial", "tcp"):
            self.probe("linkdrop_skipped")
            return
        conn.fail_write(OSError(32, "Broken pipe (simulated)"))
        self.link_fault = conn

    def op_linkdown(self):
        """The link goes away (read error) and every re-dial fails from now on: the gateway is left with a
        pending reconnect.  Meant to be followed by a stop (restart op), which makes dialling possible again."""
        world = self.world
        conn = world.device.current() if self.broker is None else None
        if conn is None or not hasattr(conn, "fail_read"):
            self.probe("linkdown_skipped")
            return
        import serial as _real_serial  # pylint: disable=import-outside-toplevel
        world.device.connect_plan = ["fail"] * 200
        exc = _real_serial.SerialException("device gone") if self.flavour in ("serial", "aserial") else ConnectionResetError(104, "Connection reset by peer")
        conn.fail_read(exc)
        self.faults["link_down_before_stop"] = self.faults.get("link_down_before_stop", 0) + 1
        world.advance(0.7)
        self.out_lines()
        self.new_callbacks()
        self.health()
        self.link_is_down = True

    def _await_link(self):
        """After a lost link: the gateway re-dials on its own; wait (bounded) until it is back."""
        world = self.world
        for _ in range(8):
            world.advance(3.0)
            conn = world.device.current()
            if conn is not None and conn.is_open:
                break
        else:
            self.probe("link_not_back")
        # nothing was received meanwhile: whatever the gateway wrote on the new link on its own (watchdog
        # probes are filtered) is traffic nobody asked for - a command lost with the old link coming back
        for ln, _ok in self.out_lines():
            flds = tables.parse_canonical(ln)
            asleep = flds is not None and self.model.sleeping(flds[0])
            self.add(vio("sent-while-asleep" if asleep else "reply-spurious",
                         {"got": [ln], "model_kind": "link-back", "note": "written after the link came back, nothing was received"},
                         model_kind="link-back"))
        self.new_callbacks()
        self.health()

    def op_chunk(self, items):
        """Several lines delivered in ONE chunk (device flavours only): the reader frames them and
        queues one job per line before the pump runs.  Afterwards every write is attributed to
        the line whose processing produced it by the begin-markers the world puts into the
        device log, and the per-line oracle runs in processing order."""
        world = self.world
        dev = world.device
        data = b"".join(text.encode("utf-8", "surrogateescape") + ending.encode() for text, ending in items)
        m0 = len(dev.markers)
        l0 = len(world.logic_log)
        w0 = self.last_w
        cb0 = self.last_cb
        off = self.cfg.get("utc_offset", 0)
        t_before = world.sim.time()
        world.feed(data)
        t_after = world.sim.time()
        markers = dev.markers[m0:]
        logic = [list(e) for e in world.logic_log[l0:]]
        if self.flavour in ("tcp", "atcp"):
            # the fake gateway device answers the TCP watchdog's version probes on its own (clock driven)
            markers = [m for m in markers if str(m[1][1]) != PROBE_PREFIX + "2.3.2"]
            logic = [e for e in logic if str(e[0]) != PROBE_PREFIX + "2.3.2"]
        writes = dev.writes[w0:]
        self.last_w = len(dev.writes)
        all_cbs = world.callbacks[cb0:]
        self.last_cb = len(world.callbacks)
        self.probe("chunks")
        if len(items) > 1:
            self.probe("multi_line_chunks")
        self.health()
        if len(markers) != len(items) or len(logic) != len(items):
            self.add(vio("reply-missing", {"note": "not every line of the chunk was processed", "lines": [i[0] for i in items],
                                           "processed": [m[1][1] for m in markers]}, model_kind="chunk"))
            # C04's side of the same event: what the accepted lines of the chunk say must be in the tree all the same
            window = (int(t_before + off), int(t_after + off))
            for text, _ending in items:
                _tier, flds = classify(text, self.version)
                if flds is not None:
                    self.model.on_line(flds, window)
            self._check_state("chunk of which not every line was processed")
            raise StopRun()
        window = (int(t_before + off), int(t_after + off))
        bounds = [m[0] for m in markers] + [10 ** 12]
        for k, (text, _ending) in enumerate(items):
            seg = []
            for _t, seq, _cid, _is_open, payload in writes:
                if bounds[k] < seq <= bounds[k + 1]:
                    try:
                        line = payload.decode("utf-8")
                    except UnicodeDecodeError:
                        line = payload.decode("utf-8", "replace")
                    well = line.endswith("\n") and line.count("\n") == 1
                    line = line[:-1] if line.endswith("\n") else line
                    if line == PROBE_PREFIX and self.flavour in ("tcp", "atcp"):
                        continue
                    seg.append((line, well))
            cb_lo = logic[k][1] - cb0
            cb_hi = (logic[k][3] if logic[k][3] is not None else logic[k][1]) - cb0
            cbs = all_cbs[cb_lo:cb_hi]
            if k > 0 and seg and self.model.nodes:
                self.probe("reply_inside_chunk")
            tier, fields = classify(text, self.version)
            self.probe("tierA_lines" if tier == "A" else "tierB_lines")
            if fields is None:
                self.probe("rejected_lines")
                if seg or cbs:
                    self.add(vio("rejected-line-had-effect", {"line": text, "tier": tier, "out": seg[:5], "callbacks": [c[0] for c in cbs][:5],
                                                              "in_chunk": True}, tier=tier))
                if seg:
                    self.add(vio("reply-spurious", {"line": text, "got": [o[0] for o in seg][:5], "model_kind": "rejected-line"}, model_kind="rejected-line"))
                self.trace.append(("rej", text[:60]))
                continue
            self.probe("accepted_lines")
            exp = self.model.on_line(fields, window)
            self.kinds.add(exp.kind)
            self.cur_kind = exp.kind
            # the state visible inside the callback is that of the line, the final tree is checked below
            self._check_expect(exp, fields, seg, [(c[0], None) for c in cbs], window, text)
            self.trace.append(("ok", text[:60], [o[0][:40] for o in seg][:4]))
        self._check_state("chunk ending with " + items[-1][0][:40])

    # ------------------------------------------------------------------ oracles
    def _check_emitted(self, out, allowed_nodes):
        """Universal C05 clause: canonical, valid for the version, addressed."""
        for text, wellformed in out:
            fields = tables.parse_canonical(text)
            if not wellformed or fields is None:
                self.add(vio("emitted-malformed", {"line": text}))
                continue
            verdict = tables.valid_frame(self.version, *fields)
            if verdict is None:
                self.probe("emitted_tierB")
                verdict = repo_classify(text, self.version) is not None
            if not verdict:
                self.add(vio("emitted-invalid", {"line": text, "version": self.version}, cmd=fields[2], sub=fields[4]))
            if allowed_nodes is not None and fields[0] not in allowed_nodes:
                self.add(vio("misaddressed", {"line": text, "allowed": sorted(allowed_nodes)}))

    def _check_expect(self, exp, fields, out, cbs, time_window, text):
        node = fields[0]
        lines = [o[0] for o in out]
        sleeping_ctx = exp.wake is not None or any(n[0] == "held" for n in exp.notes)
        # ---- universal C07 clause: handling a line of one node never releases traffic for ANOTHER node
        # that is asleep (its only window is the burst that follows its own wake-up announcement)
        for ln in lines:
            flds = tables.parse_canonical(ln)
            if flds is not None and flds[0] not in (node, 255) and self.model.sleeping(flds[0]):
                self.add(vio("sent-while-asleep", {"line": text, "got": [ln], "model_kind": exp.kind,
                                                   "note": "addressed to another node that is asleep"}, model_kind=exp.kind))
        ota_ctx = fields[2] == 4
        # ---- id response (C06) ---------------------------------------------------
        if exp.id_response is not None:
            self._check_id(exp, lines, out)
            lines = []
            out = []
        # ---- OTA (C09/C10) -----------------------------------------------------------
        if ota_ctx:
            self._check_ota(exp, fields, lines)
            self._check_emitted(out, {node, 255})
            self._check_callbacks(exp, fields, cbs)
            return
        if exp.wake is not None and exp.wake in self.poisoned:
            # the node holds a desired value the wire cannot carry (outside C05/C08's
            # quantifier): only the pump's health is checked for its bursts
            self.probe("poisoned_wakeup")
            self._check_callbacks(exp, fields, cbs)
            return
        expected = [dict(e) for e in exp.out]
        # ---- sequence part -----------------------------------------------------------
        seq_n = len(expected)
        got_seq = lines[:seq_n]
        got_rest = lines[seq_n:]
        mism = None
        for i, item in enumerate(expected):
            if i >= len(got_seq):
                mism = ("missing", item)
                break
            if not match_item(item, got_seq[i]):
                if item.get("time") and got_seq[i].startswith(item["line"]):
                    self.add(vio("time-reply-wrong", {"got": got_seq[i], "window": list(item["time"])}))
                    continue
                mism = ("wrong", item, got_seq[i])
                break
        want_set = sorted(e["line"] for e in exp.out_set)
        got_set = sorted(got_rest)
        if mism is None and want_set != got_set:
            import collections  # pylint: disable=import-outside-toplevel
            cw, cg = collections.Counter(want_set), collections.Counter(got_set)
            missing = sorted((cw - cg).elements())  # multiset difference: a line due twice and sent once is missing once
            extra = sorted((cg - cw).elements())
            if missing:
                mism = ("missing", {"line": missing[0], "kind": "desired-set"})
            else:
                mism = ("spurious", extra[0])
        if mism is not None:
            self._classify_mismatch(mism, exp, fields, lines, sleeping_ctx, text)
        allowed = {node, 255}
        self._check_emitted(out, allowed)
        self._check_callbacks(exp, fields, cbs)
        if exp.wake is not None:
            self.probe("wakeups")
            if len(exp.out) >= 2:
                self.probe("burst_with_two_held")
            if exp.out:
                self.probe("burst_with_held")
            if exp.out_set:
                self.probe("burst_with_desired")
        if any(n[0] == "held" for n in exp.notes):
            self.probe("reply_held")

    def _classify_mismatch(self, mism, exp, fields, lines, sleeping_ctx, text):
        kind = mism[0]
        detail = {"line": text, "expected": [e["line"] for e in exp.out] + [e["line"] for e in exp.out_set],
                  "got": lines, "model_kind": exp.kind}
        if exp.wake is not None and kind == "wrong" and isinstance(mism[1], dict) and mism[1].get("kind") == "held:req-reply" \
                and mism[2].rsplit(";", 1)[0].split(";")[:3] == mism[1]["line"].rsplit(";", 1)[0].split(";")[:3] \
                and mism[2].split(";")[4:5] == mism[1]["line"].split(";")[4:5]:
            # the withheld answer to a value request is delivered, but carries the wrong value (C05)
            self.add(vio("reply-wrong", detail, model_kind="req(held)"))
            return
        if exp.wake is not None:
            cls = {"missing": "burst-missing", "spurious": "burst-spurious", "wrong": "burst-order"}[kind]
            item_kind = mism[1]["kind"] if isinstance(mism[1], dict) else None
            if kind == "wrong":
                pool = list(lines[:len(exp.out)])
                for item in exp.out:
                    hit = next((g for g in pool if match_item(item, g)), None)
                    if hit is None:
                        cls = "burst-missing"
                        item_kind = item["kind"]
                        break
                    pool.remove(hit)
            if cls == "burst-missing" and item_kind == "held:req-reply":
                # a value request that had to be answered (reported or pending desired value) got no answer at all
                # (C05's reading: the request never gets its reply; C08's reading: a withheld reply is not emitted)
                self.add(vio("reply-missing", detail, model_kind="req(held)"))
            self.add(vio(cls, detail, item=item_kind))
            return
        if sleeping_ctx or (self.model.sleeping(fields[0]) and kind != "missing"):
            self.add(vio("sent-while-asleep", detail, model_kind=exp.kind))
            return
        item = mism[1] if isinstance(mism[1], dict) else None
        if item is not None and item.get("kind") == "reboot":
            self.add(vio("reboot-missing", detail))
            return
        if kind == "spurious" and isinstance(mism[1], str) and mism[1].endswith(";255;3;0;13;"):
            self.add(vio("reboot-spurious", detail))
            return
        cls = {"missing": "reply-missing", "spurious": "reply-spurious", "wrong": "reply-wrong"}[kind]
        if kind == "missing" and not self.model.sleeping(fields[0]):
            # C07's side: "traffic for other nodes is never delayed" - the reply for a node that has NOT announced smart
            # sleep is sitting in a hold-back queue instead of going out
            node_obj = self.world.gateway.sensors.get(fields[0])
            held = [str(x).strip() for x in (getattr(node_obj, "queue", None) or [])]
            if held:
                self.add(vio("awake-delayed", dict(detail, held=held[:4]), model_kind=exp.kind))
        self.add(vio(cls, detail, model_kind=exp.kind))

    def _check_callbacks(self, exp, fields, cbs):
        self._adopt_versions()
        if self.cfg.get("no_callback"):
            return  # the gateway was built without an event callback
        entries = [c[0] for c in cbs]
        want = tuple(fields)
        if exp.cb == "mustnot":
            if entries:
                self.add(vio("callback-spurious", {"fields": list(want), "got": entries[:3], "model_kind": exp.kind}, model_kind=exp.kind))
            return
        if exp.cb == "must" and not entries:
            self.add(vio("callback-missing", {"fields": list(want), "model_kind": exp.kind}, model_kind=exp.kind))
            return
        if len(entries) > 1:
            self.add(vio("callback-spurious", {"fields": list(want), "got": entries[:3], "model_kind": exp.kind}, model_kind=exp.kind))
            return
        if entries:
            got = entries[0]
            if tuple(got) != want:
                self.add(vio("callback-args", {"want": list(want), "got": list(got)}, model_kind=exp.kind))
            snap = cbs[0][1]
            if exp.cb == "must" and snap is not None and not self.state_diverged and snap != self.model.projection():
                self.add(vio("callback-before-state", {"fields": list(want), "diff": _diff(snap, self.model.projection())}, model_kind=exp.kind))

    def _adopt_versions(self):
        """Resolve the model's ADOPT markers (node version left open by the statement)."""
        for nid, rec in self.model.nodes.items():
            if rec.get("version") == gateway_model.ADOPT:
                node = self.world.gateway.sensors.get(nid)
                held = getattr(node, "protocol_version", None)
                self.probe("node_version_adopted")
                if isinstance(held, str) and re.match(r"^\d+\.\d+(\.\d+)?$", held):
                    rec["version"] = held
                else:
                    # whatever it is, it must be something the node's later messages can be judged by
                    rec["version"] = "1.4"
                    if node is not None:
                        self.add(vio("state-mismatch", {"after": "node presentation without a version",
                                                        "diff": {"protocol_version": repr(held)}}))

    def _check_state(self, text):
        self._adopt_versions()
        if self.state_diverged:
            return
        real = W.projection(self.world.gateway.sensors)
        want = self.model.projection()
        shash = hashlib.sha256(repr(sorted(want.items(), key=repr)).encode()).hexdigest()[:12]
        self.states.add(shash)
        if shash != self.prev_state_hash:
            self.prev_state_hash = shash
            self.last_change_t = self.world.sim.now
            self.last_change_kind = self.cur_kind
        if real != want:
            self.add(vio("state-mismatch", {"after": text, "diff": _diff(real, want)}))
            # the tree is no longer compared after this (the first divergence is the finding); the
            # run goes on so that the other oracles - liveness above all - still see what follows
            self.state_diverged = True

    def _check_id(self, exp, lines, out):
        hdr = f"{exp.id_header[0]};{exp.id_header[1]};3;0;4;"
        if self.model.sleeping(exp.id_header[0]):
            # the requester itself is a sleeping node: its id response is withheld like any
            # other reply (C07); the allocation is observed through the new node instead
            self.probe("id_response_held")
            if lines:
                self.add(vio("sent-while-asleep", {"got": lines, "model_kind": "id-request"}, model_kind="id-request"))
            fresh = [n for n in self.world.gateway.sensors if n not in self.model.nodes]
            if len(fresh) == 1:
                new_id = fresh[0]
                if not isinstance(new_id, int) or not 1 <= new_id <= 254:
                    self.add(vio("id-out-of-range", {"id": new_id}))
                elif new_id in self.model.handed_out or (self.persist and self.clean_history and new_id in self.ids_all):
                    self.add(vio("id-reused", {"id": new_id, "handed_out": list(self.ids_all)}))
                self.model.on_id_assigned(new_id)
                self.ids_all.append(new_id)
                self.model.nodes[exp.id_header[0]]["held"].append(
                    {"line": f"{hdr}{new_id}", "ack_free": False, "kind": "id-response", "time": None})
            return
        resp = [ln for ln in lines if ln.startswith(hdr)]
        other = [ln for ln in lines if not ln.startswith(hdr)]
        if other:
            self.add(vio("reply-spurious", {"got": other, "model_kind": "id-request"}, model_kind="id-request"))
        if len(resp) > 1:
            self.add(vio("reply-spurious", {"got": resp, "model_kind": "id-request"}, model_kind="id-request"))
        if not resp:
            if exp.id_response == "required":
                self.add(vio("id-response-missing", {"known": sorted(self.model.nodes)}))
                # C05's side of the same event: an id request that can be served is answered with an id response
                self.add(vio("reply-missing", {"line": f"{exp.id_header[0]};{exp.id_header[1]};3;0;3;", "expected": ["an id response"], "got": lines,
                                               "model_kind": "id-request", "known": sorted(self.model.nodes)}, model_kind="id-request"))
                # C04's side of the same event: an id that can be assigned creates a node in the tree
                self.add(vio("id-node-missing", {"known": sorted(self.model.nodes), "tree": sorted(self.world.gateway.sensors, key=repr)[:12]}))
            self.probe("id_no_response")
            if exp.id_response == "optional":
                self.probe("id_space_exhausted")
            return
        payload = resp[0][len(hdr):]
        if not tables.canonical_int(payload) or not 1 <= int(payload) <= 254:
            self.add(vio("id-out-of-range", {"line": resp[0]}))
            return
        new_id = int(payload)
        if new_id in self.model.nodes:
            self.add(vio("id-known", {"id": new_id, "known": sorted(self.model.nodes)}))
        elif new_id in self.model.handed_out or (self.persist and self.clean_history and new_id in self.ids_all):
            where = "this lifetime" if new_id in self.model.handed_out else "earlier lifetime"
            self.add(vio("id-reused", {"id": new_id, "where": where, "handed_out": list(self.ids_all)}, where=where))
        self.model.on_id_assigned(new_id)
        self.ids_all.append(new_id)
        self.probe("ids_handed_out")
        self._check_emitted([o for o in out if o[0].startswith(hdr)], None)

    def _check_ota(self, exp, fields, lines):
        node = fields[0]
        snap = None
        if getattr(exp, "ota_malformed", False):
            self.probe("ota_malformed_requests")
            if lines:
                self.add(vio("ota-malformed-replied", {"request": fields[5], "got": lines}))
            before = getattr(self, "_ota_before", None)
            after = W.ota_state(self.world.gateway)
            if before is not None and after != before:
                self.add(vio("ota-malformed-changed-session", {"request": fields[5], "before": repr(before)[:300], "after": repr(after)[:300]}))
            return
        cfgx = getattr(exp, "ota_config", None)
        blk = getattr(exp, "ota_block", None)
        pres = [e["line"] for e in exp.out]  # presentation request for unknown node
        if cfgx is not None:
            hdr = f"{node};255;4;"
            resp = [ln for ln in lines if ln.startswith(hdr) and ln.split(";")[4] == "1"]
            if cfgx["optional"]:
                self.model.ota.resolve_optional_config(node, bool(resp))
                self.probe("ota_optional_config")
                if not resp:
                    if lines:
                        self.add(vio("ota-reply-spurious", {"got": lines}))
                    return
            if not resp:
                self.add(vio("ota-reply-missing", {"request": "config", "node": node, "got": lines}, request="config"))
                return
            if len(lines) != 1:
                self.add(vio("ota-reply-spurious", {"got": lines}, request="config"))
            words = unle16(resp[0].split(";", 5)[5], 4)
            key = (cfgx["type"], cfgx["ver"])
            image = self.model.ota.firmware[key]
            if words is None or words[0] != key[0] or words[1] != key[1]:
                self.add(vio("ota-reply-wrong", {"got": resp[0], "want_type_ver": key}, request="config"))
                return
            blocks, crc = words[2], words[3]
            total = blocks * 16
            k = total - len(image)
            if k < 0 or k > 128 or total % 128 != 0 or crc != crc16_modbus(image + b"\xff" * max(k, 0)):
                self.add(vio("ota-advertised-wrong", {"got": resp[0], "image_len": len(image), "blocks": blocks, "crc": crc,
                                                      "want_crc_min_pad": self.model.ota.advertised(key)[1]}))
            self.fw_served[key] = blocks
            self.probe("ota_config_responses")
            return
        if blk is not None:
            key = (blk["type"], blk["ver"])
            image = self.model.ota.firmware[key]
            blocks = self.fw_served.get(key) or self.model.ota.advertised(key)[0]
            padded = image + b"\xff" * (blocks * 16 - len(image))
            idx = blk["blk"]
            hdr_payload = le16(key[0], key[1], idx)
            resp = [ln for ln in lines if ln.startswith(f"{node};255;4;") and ln.split(";")[4] == "3"]
            if idx < blocks:
                want = hdr_payload + padded[idx * 16:(idx + 1) * 16].hex()
                if not resp:
                    self.add(vio("ota-reply-missing", {"request": "block", "node": node, "blk": idx, "got": lines}, request="block"))
                    # C09's side of the same event: a block of the advertised firmware, asked for by a node in a session, is not served
                    self.add(vio("ota-block-missing", {"node": node, "blk": idx, "key": list(key), "got": lines, "state": self.model.ota.state.get(node)}))
                    return
                got = resp[0].split(";", 5)[5]
                if got.lower() != want.lower():
                    self.add(vio("ota-block-wrong", {"blk": idx, "want": want, "got": got}))
                if len(lines) != 1:
                    self.add(vio("ota-reply-spurious", {"got": lines}, request="block"))
                self.probe("ota_block_responses")
            else:
                self.probe("ota_block_out_of_range")
                for ln in resp:
                    got = ln.split(";", 5)[5]
                    if not got.lower().startswith(hdr_payload) or len(got) > len(hdr_payload) + 32:
                        self.add(vio("ota-block-wrong", {"blk": idx, "got": got, "note": "out-of-range reply must echo header with <= 16 bytes"}))
                if [ln for ln in lines if ln not in resp]:
                    self.add(vio("ota-reply-spurious", {"got": lines}, request="block"))
            return
        # no OTA reply expected (idle / unknown / gated)
        want = pres
        if sorted(lines) != sorted(want):
            extra = [ln for ln in lines if ln not in want]
            if extra:
                self.add(vio("ota-reply-spurious", {"request": fields[5], "got": lines, "state": self.model.ota.state.get(node)},
                             state=self.model.ota.state.get(node)))
            else:
                self.add(vio("reply-missing", {"expected": want, "got": lines, "model_kind": exp.kind}, model_kind=exp.kind))

    # -------------------------------------------------------------- controller ops
    def op_setpair(self, first, second):
        """Two set_child_value calls back to back (no settling in between)."""
        world = self.world
        want = []
        for nid, cid, vtype, value in (first, second):
            try:
                world.call("set_child_value", nid, cid, vtype, value)
            except kernel.SimAbort:
                raise
            except Exception:  # pylint: disable=broad-except
                self.probe("set_refused")
                continue
            action, exp = self.model.set_child_value_plan(nid, cid, int(vtype), value, 0)
            if action == "store":
                self.model.store_desired(nid, cid, int(vtype), str(value))
            else:
                want += [e["line"] for e in exp.out]
        world.settle()
        out = self.out_lines()
        self.new_callbacks()
        self.health()
        lines = [o[0] for o in out]
        self.probe("set_pairs")
        if lines != want:
            missing = [w for w in want if w not in lines]
            cls = "reply-missing" if missing else ("reply-spurious" if len(lines) > len(want) else "reply-wrong")
            self.add(vio(cls, {"call": "two set_child_value calls back to back", "expected": want, "got": lines, "model_kind": "controller-set-pair"},
                         model_kind="controller-set-pair"))
        self._check_emitted(out, None)
        self._check_state("set_child_value x2")
        self.trace.append(("setpair", first[0], second[0], lines[:4]))

    def op_set(self, nid, cid, vtype, value, kw):
        world = self.world
        gateway = world.gateway
        real_vtype = vtype
        if isinstance(vtype, list) and vtype[0] == "enum":
            real_vtype = gateway.const.SetReq(vtype[1])
            vtype_int = vtype[1]
        else:
            try:
                vtype_int = int(vtype)
            except (TypeError, ValueError):
                vtype_int = None
        raised = None
        unwireable = isinstance(value, str) and (";" in value or "\n" in value or value != value.rstrip())
        try:
            world.call("set_child_value", nid, cid, real_vtype, value, **kw)
        except kernel.SimAbort:
            raise
        except Exception as exc:  # pylint: disable=broad-except
            raised = exc
        world.settle()
        out = self.out_lines()
        cbs = self.new_callbacks()
        self.health()
        lines = [o[0] for o in out]
        if cbs:
            self.add(vio("callback-spurious", {"call": "set_child_value", "got": [c[0] for c in cbs][:3]}, model_kind="controller-set"))
        if unwireable:
            # outside C05/C08's quantifier (the wire format cannot carry it); only the
            # health of the pump matters (C01).  Keep the model in step with what was stored.
            self.probe("set_unwireable_value")
            if raised is None and vtype_int is not None:
                action, _ = self.model.set_child_value_plan(nid, cid, vtype_int, value, kw.get("ack", 0))
                if action == "store":
                    self.poisoned.add(nid)
            self.trace.append(("set-unwireable", nid, cid, str(vtype), value[:20], type(raised).__name__ if raised else "ok"))
            return
        if raised is not None:
            self.probe("set_refused")
            if lines:
                pres = f"{nid};255;3;0;19;"
                if [ln for ln in lines if ln != pres]:
                    self.add(vio("reply-spurious", {"call": "set_child_value raised", "got": lines}, model_kind="controller-set"))
            self.trace.append(("set-raised", nid, cid, str(vtype), str(value)[:20], type(raised).__name__))
            self._check_state("set_child_value(raised)")
            return
        if vtype_int is None:
            self.trace.append(("set-accepted-odd-type", str(vtype)))
            return
        action, exp = self.model.set_child_value_plan(nid, cid, vtype_int, value, kw.get("ack", 0))
        if action == "send" and kw.get("msg_type") is not None:
            exp.out[0]["line"] = f"{nid};{cid};{int(kw['msg_type'])};{kw.get('ack', 0)};{vtype_int};{value}"
        if action == "store":
            self.model.store_desired(nid, cid, vtype_int, str(value))
            self.probe("desired_stored")
            if lines:
                self.add(vio("sent-while-asleep", {"call": "set_child_value", "got": lines}, model_kind="controller-set"))
        else:
            want = [e["line"] for e in exp.out]
            if lines != want:
                if action == "noop" and self.model.sleeping(nid):
                    cls = "sent-while-asleep" if lines else None
                else:
                    cls = "reply-missing" if len(lines) < len(want) else ("reply-spurious" if len(lines) > len(want) else "reply-wrong")
                if cls:
                    self.add(vio(cls, {"call": "set_child_value", "expected": want, "got": lines}, model_kind="controller-set"))
            self._check_emitted(out, {nid, 255})
            if action == "send":
                self.probe("controller_sets_sent")
        self._check_state("set_child_value")
        self.trace.append(("set", nid, cid, str(vtype), str(value)[:20], action))

    def op_fw(self, nids, ftype, fver, image_hex, via):
        world = self.world
        gateway = world.gateway
        image = bytes.fromhex(image_hex) if image_hex is not None else None
        raised = None
        try:
            if via == "hex" and image is not None:
                path = f"/work/fw_{self.op_index}.hex"
                rec = self.cfg.get("hex_record_len", 16)
                self.fs.put(path, intel_hex(image, rec, 0, self.cfg.get("hex_ela", False)).encode())
                world.call("update_fw", nids, ftype, fver, fw_path=path)
            elif image is not None:
                if W.is_async(self.flavour):
                    world.on_loop(lambda: gateway.tasks.ota.make_update(nids, ftype, fver, image))
                else:
                    gateway.tasks.ota.make_update(nids, ftype, fver, image)
            else:
                world.call("update_fw", nids, ftype, fver)
        except kernel.SimAbort:
            raise
        except Exception as exc:  # pylint: disable=broad-except
            raised = exc
        world.settle()
        out = self.out_lines()
        self.new_callbacks()
        self.health()
        if out:
            self.add(vio("reply-spurious", {"call": "update_fw", "got": [o[0] for o in out]}, model_kind="update-fw"))
        if raised is not None:
            self.probe("update_fw_refused")
            self.trace.append(("fw-raised", type(raised).__name__))
            return
        try:
            ftype_i, fver_i = int(ftype), int(fver)
        except (TypeError, ValueError):
            self.trace.append(("fw-ignored",))
            return
        if not (0 <= ftype_i <= 0xFFFF and 0 <= fver_i <= 0xFFFF):
            # type / version outside the 16-bit fields of the stream messages: there is no way to offer such a
            # firmware, the call (if it returns at all) must not start or disturb any session
            self.probe("update_fw_type_or_version_out_of_range")
            self.trace.append(("fw-out-of-range", ftype_i, fver_i))
            return
        if image == b"":
            # a HEX file without data is not firmware: the call must not start (or disturb) any session
            self.probe("update_fw_with_empty_hex")
            self.trace.append(("fw-empty-hex",))
            return
        if image is not None:
            self.fw_served.pop((ftype_i, fver_i), None)  # a new image under this key: its block count is learnt anew
        done = self.model.ota.schedule(self.model.nodes, copy.deepcopy(nids), ftype_i, fver_i, image)
        for nid in done:
            self.model.nodes[nid]["reboot"] = True
        if done:
            self.probe("ota_sessions_scheduled", len(done))
        self.trace.append(("fw", nids, ftype_i, fver_i, None if image is None else len(image), done))

    def op_restart(self, late_line=None, opts=None):
        """Clean stop, then a fresh gateway object on the same disk.  ``late_line``: a line the
        network delivers at the very moment the final save of stop() has been written (it is
        only ever seen by a gateway that still listens at that point)."""
        world = self.world
        self.inject_at_final_save = None if late_line is None or self.broker is not None else late_line.encode() + b"\n"
        load_fault = opts.get("load_fault") if opts else None
        before = W.projection(world.gateway.sensors)
        trans_before = W.transient(world.gateway.sensors)
        if any(tr["queue"] or tr["reboot"] or any(any(x is not None for x in v.values()) for v in tr["desired"].values())
               for tr in trans_before.values()):
            self.probe("transient_nonempty_at_stop")
        if self.persist and self.cfg.get("force_dirty"):
            # C11 isolates serialisation from dirty-flag tracking (that is C14's business)
            world.gateway.tasks.persistence.need_save = True
        if self.persist:
            self.probe("stop_after_unsaved_change" if self.last_change_t > self.last_save_t else "stop_with_nothing_unsaved")
            if self.last_change_t > self.last_save_t and self.last_change_kind:
                self.last_kinds.add(self.last_change_kind)
        self.stopping = True
        disk_at_stop = None
        try:
            if not (opts and opts.get("already_stopped")):
                world.stop()
            before = W.projection(world.gateway.sensors)  # what the gateway holds at the instant stop() returns
            if self.persist:
                disk_at_stop = self.fs.clone()  # the file as it is at that instant
        except (kernel.SimAbort, kernel.SimKilled, kernel.Deadlock):
            raise
        except BaseException as exc:  # pylint: disable=broad-except
            # (also asyncio.CancelledError, which is not an Exception)
            self.add(vio("stop-raised", {"exc": repr(exc)}, exc=type(exc).__name__))
            # (no fault is ever injected into stop()'s own save: the application stopped the gateway properly, so the
            # guarantees "across a clean stop and restart" still apply to what follows)
        if self.link_is_down:
            self.link_is_down = False
            if self.broker is None:
                del world.device.connect_plan[:]
        immediate = bool(opts and opts.get("immediate")) and late_line is None
        if immediate:
            # the application starts the next gateway the moment stop() has returned (same process, same
            # loop): anything the old one left running behind its back now races with the new one's load
            self.probe("restart_immediately_after_stop")
        else:
            world.settle()
        self.stopping = False
        self.inject_at_save = None  # a line that found no save to ride on is not delivered to the next lifetime
        self.tick_times = []  # the next lifetime has its own save schedule
        if not immediate:
            world.advance(0.1)
        stopped_gateway = world.gateway
        if late_line is not None:
            # what the gateway held when it stopped (a line it still handled during stop() counts)
            before = W.projection(stopped_gateway.sensors)
        # ids handed out while stop() was in progress (a line delivered during the last save, or at the moment
        # the final save had been written) count as handed out for the lifetimes that follow
        for text, _ok in self.out_lines():
            parts = text.split(";")
            if len(parts) == 6 and parts[2] == "3" and parts[4] == "4" and tables.canonical_int(parts[5]):
                self.ids_all.append(int(parts[5]))
                self.probe("id_handed_out_during_stop")
        self.health()
        self.lifetime += 1
        if disk_at_stop is not None and late_line is None:
            # "after stop() the file on disk reproduces ...": judged on the disk as stop() left it, not on
            # what a straggling writer may still add afterwards
            held = before
            simfs.FsHolder.fs = disk_at_stop
            world.fs = disk_at_stop
            try:
                scratch = self._build()
                try:
                    scratch.tasks.persistence.safe_load_sensors()
                    got = W.projection(scratch.sensors)
                except Exception as exc:  # pylint: disable=broad-except
                    got = {"load raised": repr(exc)}
            finally:
                simfs.FsHolder.fs = self.fs
                world.fs = self.fs
            if got != held:
                self.add(vio("restart-lost-state", {"diff": _diff(got, held) if "load raised" not in got else got, "format": self.persist,
                                                    "when": "disk as it was when stop() returned"}, format=self.persist, when="at-stop-return"))
        if self.broker is not None:
            del self.broker.subs[:]  # a new client session: the old subscriptions are gone
        self._build()
        if load_fault and self.persist:
            self.fs.read_faults[self.fs.norm(f"/work/mysensors.{self.persist}")] = load_fault
            self.faults["read_" + load_fault + "_at_startup"] = self.faults.get("read_" + load_fault + "_at_startup", 0) + 1
        try:
            try:
                world.start(persistence=bool(self.persist))
            except OSError:
                if not self.fs.read_faults_fired:
                    raise
                # a transient I/O error while reading the file: the application tries again
                self.probe("start_retried_after_read_error")
                self.fs.read_faults_fired = 0
                world.settle()
                self._build()
                world.start(persistence=bool(self.persist))
        except kernel.SimAbort:
            raise
        except Exception as exc:  # pylint: disable=broad-except
            self.add(vio("load-raised", {"exc": repr(exc)}, exc=type(exc).__name__))
            raise StopRun()
        self.out_lines()
        self.new_callbacks()
        self.health()
        after = W.projection(world.gateway.sensors)
        early = getattr(world, "after_start_persistence", None)
        if self.persist and early is not None and early != after and not load_fault:
            # the documented start-up order is start_persistence() then start(): whatever is restored must be there when the
            # first of the two returns, not some time later
            self.add(vio("restart-lost-state", {"diff": _diff(early, after), "format": self.persist, "when": "when start_persistence() returned"},
                         format=self.persist, when="at-start_persistence-return"))
        kind = "tcp" if self.flavour in ("tcp", "atcp") else ("mqtt" if self.broker else "plain")
        old = self.model
        self.model = GatewayModel(self.version, kind, metric=True)
        self.fw_served = {}
        if self.persist:
            self.probe("restarts_with_persistence")
            if after != before:
                as_roundtrip = self.cfg.get("force_dirty") or self.cfg.get("roundtrip_view")
                cls = "roundtrip-mismatch" if as_roundtrip else "restart-lost-state"
                self.add(vio(cls, {"diff": _diff(after, before), "format": self.persist, "last_change": self.last_change_kind},
                             format=self.persist, last_change=None if as_roundtrip else self.last_change_kind))
            # continue from what was really loaded so later ops stay meaningful
            for nid, rec in after.items():
                if "children" not in rec:
                    continue  # not a node (already reported as lost state above)
                self.model.nodes[nid] = _model_node_from_projection(nid, rec)
            trans = W.transient(world.gateway.sensors)
            for nid, tr in trans.items():
                if tr["queue"] or tr["reboot"] or any(v for v in tr["desired"].values()):
                    self.add(vio("transient-resurrected", {"node": nid, "state": tr}))
        else:
            self.probe("restarts_without_persistence")
            if after:
                self.add(vio("state-mismatch", {"after": "restart without persistence", "diff": _diff(after, {})}))
                raise StopRun()
        _ = old
        self.trace.append(("restart", self.lifetime))

    def op_race(self, spec):
        """A controller call made from a second thread WHILE a line is being processed (pre-emptive
        schedules decide the interleaving).  Replies written during the race are consumed without
        an order check (either interleaving is legal); the model is brought to the state both
        interleavings agree on, and the steps that follow are checked as usual."""
        world = self.world
        gateway = world.gateway
        sim = world.sim
        call = spec["call"]
        done = kernel.SimEvent()
        outcome = {}

        def controller():
            try:
                if call[0] == "set":
                    gateway.set_child_value(call[1], call[2], call[3], call[4])
                else:
                    gateway.tasks.ota.make_update(call[1], call[2], call[3], bytes.fromhex(call[4]) if call[4] else None)
                outcome["ok"] = True
            except Exception as exc:  # pylint: disable=broad-except
                outcome["exc"] = exc
            finally:
                done.set()

        self.probe("races")
        text = spec["line"]
        tier, fields = classify(text, self.version)
        go = kernel.SimEvent()

        def waiting_controller():
            # becomes runnable at the instant the pump starts on the racing line, so both are
            # runnable together and the pre-emptive policy decides the interleaving
            go.wait(2.0)
            controller()

        def hook(data):
            if data.rstrip("\r") == text:
                go.set()

        behind = spec.get("behind") if self.broker is None and not W.is_async(self.flavour) else None
        m0 = len(world.device.markers) if self.broker is None else 0
        w0 = len(world.device.writes) if self.broker is None else 0
        if W.is_async(self.flavour):
            world.device.inject(text.encode("utf-8", "surrogateescape") + b"\n")
            world.on_loop(controller)
        else:
            world.logic_hook = hook
            sim.spawn(waiting_controller, role="controller")
            data = text.encode("utf-8", "surrogateescape") + b"\n"
            if behind:
                data += behind.encode("utf-8") + b"\n"  # another node's line is queued right behind the racing one
            world.device.inject(data)
            done.wait(5.0)
            world.logic_hook = None
        world.settle()
        if behind and call[0] == "set" and self.model.sleeping(call[1]):
            # whichever way the race went, a command for the sleeping node leaves in the burst of ITS wake-up (or waits for the
            # next one): once the pump has started on the other node's line, the wake window is over
            later = [m for m in world.device.markers[m0:] if str(m[1][1]).rstrip("\r") == behind]
            if later:
                self.probe("races_with_a_line_behind")
                for _t, seq, _cid, _is_open, payload in world.device.writes[w0:]:
                    parts = payload.decode("utf-8", "replace").rstrip("\n").split(";")
                    if seq > later[0][0] and len(parts) == 6 and parts[0] == str(call[1]) and parts[2] == "1":
                        self.add(vio("sent-while-asleep", {"line": behind, "got": [";".join(parts)], "model_kind": "race",
                                                           "note": "command for the sleeping node written after the pump had moved on to another node's line"},
                                     model_kind="race"))
                        break
        out = self.out_lines()
        self.new_callbacks()
        self.health()
        self._check_emitted(out, None)
        # ---- model: both interleavings end in the same state -------------------------------------
        if fields is not None:
            exp = self.model.on_line(fields, (0, 2 ** 40))
            if getattr(exp, "ota_config", None) and exp.ota_config.get("optional"):
                self.model.ota.resolve_optional_config(fields[0], any(o[0].split(";")[2:5:2] == ["4", "1"] for o in out))
        if behind:
            _tier_b, fields_b = classify(behind, self.version)
            if fields_b is not None:
                self.model.on_line(fields_b, (0, 2 ** 40))
        if call[0] == "set" and "ok" in outcome:
            action, _exp = self.model.set_child_value_plan(call[1], call[2], int(call[3]), call[4])
            if action == "store":
                self.model.store_desired(call[1], call[2], int(call[3]), str(call[4]))
        elif call[0] == "fw" and "ok" in outcome:
            image = bytes.fromhex(call[4]) if call[4] else None
            if image is not None:
                self.fw_served.pop((int(call[2]), int(call[3])), None)
            donel = self.model.ota.schedule(self.model.nodes, call[1], int(call[2]), int(call[3]), image)
            for nid in donel:
                self.model.nodes[nid]["reboot"] = True
        self.trace.append(("race", text[:40], call[0], "ok" if "ok" in outcome else type(outcome.get("exc")).__name__))
        self._check_state("race")

    # ------------------------------------------------------------------- driver
    def run_ops(self, ops):
        world = self.world
        for index, op in enumerate(ops):
            self.op_index = index
            kind = op[0]
            if self.link_fault is not None and kind != "line":
                # the write error armed by a linkdrop op is meant for the reply of the next LINE only
                self.link_fault.write_exc = None
                self.link_fault = None
            if kind == "line":
                self.op_line(op[1], op[2] if len(op) > 2 else "\n")
            elif kind == "readonly_tick":
                # the persistence directory is not writable while one scheduled save comes and goes
                # (the library refuses that save without raising), then it is writable again
                self.fs.readonly.add("/work")
                self.faults["readonly_dir_at_tick"] = self.faults.get("readonly_dir_at_tick", 0) + 1
                wait = (self.tick_times[-1] + 10.0 - world.sim.now) if self.tick_times else 10.1
                world.advance(max(0.0, wait) + 0.5)
                self.fs.readonly.discard("/work")
                self._after_idle()
            elif kind == "race":
                self.op_race(op[1])
            elif kind == "line_at_save":
                self._deliver_and_observe(op[1], "\n", at_save=True)
            elif kind == "linkdrop":
                self.op_linkdrop()
            elif kind == "linkdown":
                self.op_linkdown()
            elif kind == "stop_from_callback":
                # a state-changing line; the application calls stop() from inside the event callback it triggers
                known = sorted(n for n in self.model.nodes if isinstance(n, int) and 0 < n < 255)
                op = [op[0], op[1].replace("{n}", str(known[0] if known else 1))]
                if self.flavour in ("serial", "tcp", "mqtt") and not self.cfg.get("no_callback"):
                    self.stop_from_callback = True
                    if self.broker is not None:
                        self.op_line(op[1])
                    else:
                        world.device.inject(op[1].encode("utf-8", "surrogateescape") + b"\n")
                        world.advance(0.3)
                    if self.stopped_in_callback:
                        self.probe("stopped_from_event_callback")
                        self.stopped_in_callback = False
                        self.op_restart(opts={"already_stopped": True})
                    else:
                        self.stop_from_callback = False
                        self.op_restart()
                else:
                    self.op_line(op[1])
                    self.op_restart()
            elif kind == "stop_in_callback":
                # a state-changing line whose event callback is slow; the application stops the gateway while the poll
                # thread is still inside that callback (threaded device flavours; elsewhere: the line, then the stop)
                known = sorted(n for n in self.model.nodes if isinstance(n, int) and 0 < n < 255)
                op = [op[0], op[1].replace("{n}", str(known[0] if known else 1))]
                if self.flavour in ("serial", "tcp") and not self.cfg.get("no_callback") and world.device.current() is not None:
                    tier, fields = classify(op[1], self.version)
                    self.slow_callback = 3.5
                    world.device.inject(op[1].encode("utf-8", "surrogateescape") + b"\n")
                    world.sim.sleep(0.1)
                    self.probe("stop_during_slow_callback")
                    self.op_restart()
                    self.slow_callback = 0
                    _ = (tier, fields)
                else:
                    self.op_line(op[1])
                    self.op_restart()
            elif kind == "line_at_tick":
                self._deliver_and_observe(op[1], "\n", at_save="tick")
            elif kind == "raw":
                # a frame as the link delivered it, possibly with bytes that are not UTF-8
                raw = bytes.fromhex(op[1])
                text = raw.decode("utf-8", "replace")
                if self.broker is not None:
                    self.op_line(text.replace("\n", " "))
                else:
                    self._deliver_and_observe(text, "\n", raw=raw + b"\n")
            elif kind == "chunk":
                self.op_chunk([(it[0], it[1] if len(it) > 1 else "\n") for it in op[1]])
            elif kind == "setpair":
                self.op_setpair(op[1], op[2])
            elif kind == "set":
                self.op_set(op[1], op[2], op[3], op[4], op[5] if len(op) > 5 else {})
            elif kind == "fw":
                self.op_fw(op[1], op[2], op[3], op[4], op[5])
            elif kind == "metric":
                world.gateway.metric = bool(op[1])
                self.model.metric = bool(op[1])
            elif kind == "advance":
                world.advance(op[1])
                self._after_idle()
            elif kind == "clockjump":
                if self.flavour in ("tcp", "atcp"):
                    # the TCP watchdog reads the same wall clock: a jump makes it drop and re-dial the
                    # link (C20's business) and commands sent meanwhile are legitimately lost
                    self.probe("clockjump_skipped_tcp")
                else:
                    world.sim.wall_skew += op[1]
                    self.faults["clock_jump"] = self.faults.get("clock_jump", 0) + 1
            elif kind == "restart":
                o1 = op[1] if len(op) > 1 and isinstance(op[1], dict) else {}
                self.op_restart(o1.get("late_line"), o1)
            elif kind == "fault_tick":
                # one transient I/O fault at the first operation of the given kind in the next scheduled save
                self.pending_fault = (op[1], op[2])
                wait = (self.tick_times[-1] + 10.0 - world.sim.now) if self.tick_times else 10.1
                world.advance(max(0.0, wait) + 0.5)
                self.fs.disarm()
                if self.pending_fault is None:
                    self.faults["save_" + op[2] + "_at_" + op[1]] = self.faults.get("save_" + op[2] + "_at_" + op[1], 0) + 1
                self.pending_fault = None
                self._after_idle()
            elif kind == "stop_at_tick":
                # stop() issued at the very instant a scheduled save begins: whether the two
                # overlap is up to the scheduler (pre-emptive policies)
                if self.tick_times:
                    if len(op) > 1 and isinstance(op[1], dict) and op[1].get("line") and self.broker is None:
                        # ... and a line that the network delivers at the same instant (handled while the save runs)
                        self.inject_at_save = op[1]["line"].encode() + b"\n"
                    if len(op) > 1 and isinstance(op[1], dict) and op[1].get("fault") and self.flavour in ("serial", "tcp", "mqtt"):
                        # ... and that scheduled save fails at one of its operations (threaded flavours: the timer thread)
                        self.fault_at_last_tick = tuple(op[1]["fault"])
                    dt = self.tick_times[-1] + 10.0 - world.sim.now
                    slow = self.cfg.get("slow_fsync")
                    if slow and self.inject_at_save is not None:
                        # slow medium: the scheduled save sits in fsync for `slow` seconds; the line arrives and is
                        # handled in that time, and stop() is called while the save is still not finished
                        data, self.inject_at_save = self.inject_at_save, None
                        world.sim.sleep(max(0.0, dt) + 0.2 * slow)
                        if world.device.current() is not None:
                            world.device.inject(data)
                        world.sim.sleep(0.5 * slow)
                        self.probe("line_handled_during_slow_save")
                    elif dt > 0:
                        world.sim.sleep(dt)
                    self.probe("stop_at_tick")
                self.op_restart()
                self.fault_at_last_tick = None
                if self.pending_fault is not None:
                    self.pending_fault = None
                    self.fs.disarm()
            elif kind == "adopt":
                ids = self.model.handed_out
                if ids:
                    nid = ids[op[1] % len(ids)]
                    self.op_line(f"{nid};255;0;0;17;{op[2]}")
            else:
                raise ValueError(f"unknown op {op!r}")

    def _after_idle(self):
        out = self.out_lines()
        cbs = self.new_callbacks()
        self.health()
        if out:
            self.add(vio("reply-spurious", {"after": "idle time", "got": [o[0] for o in out]}, model_kind="idle"))
        if cbs:
            self.add(vio("callback-spurious", {"after": "idle time", "got": [c[0] for c in cbs][:3]}, model_kind="idle"))

    def execute(self):
        res = {"violations": self.violations, "probes": self.probes, "faults": self.faults}
        return self._execute(res)

    def _guarded_ops(self, ops):
        try:
            self.run_ops(ops)
        except (StopRun, kernel.SimAbort, kernel.Deadlock):
            raise
        except Exception:
            if self.state_diverged:
                raise StopRun()  # the model cannot follow an implementation state it has no notion of
            raise

    def _execute(self, res):
        world = self.world
        incomplete = None
        try:
            try:
                self.start()
                self._guarded_ops(self.case["ops"])
            except StopRun:
                if self.persist and not self.stopping and self.violations:
                    # lock-step comparison ended early (processing raised, a thread died, the state diverged): the application still
                    # stops the gateway and starts the next one - what the stopped gateway held must come back all the same
                    try:
                        self.probe("restart_after_failed_run")
                        self.op_restart(None, {})
                    except (StopRun, kernel.SimAbort, kernel.Deadlock):
                        pass
                    except Exception:  # pylint: disable=broad-except
                        pass  # the model may no longer follow; only what op_restart itself established counts
            except kernel.SimAbort as exc:
                incomplete = str(exc)
            except kernel.Deadlock as exc:
                incomplete = "deadlock: " + str(exc)[:200]
            try:
                if incomplete is None:
                    self.health()
            except StopRun:
                pass
        finally:
            sim = world.sim
            for name, val in sim.stats.items():
                if name.startswith("fault_"):
                    self.faults[name[6:]] = self.faults.get(name[6:], 0) + val
            res["digest"] = sim.digest()
            res["steps"] = sim.steps
            res["sim_seconds"] = sim.now
            res["interleaving"] = sim.switch_digest() if sim.preemptions else None
            res["sched"] = sim.decisions() if sim.tracing else None
            leaked = world.close()
            if leaked:
                self.probe("leaked_threads", leaked)
        res["incomplete"] = incomplete
        res["states"] = sorted(self.states)
        res["kinds"] = sorted(k for k in self.kinds if k)
        res["last_kinds"] = sorted(k for k in self.last_kinds if k)
        return res


class StopRun(Exception):
    """A violation that makes further lock-step comparison meaningless."""


def _site(trace):
    """Innermost mysensors frame of a traceback string (for signatures)."""
    site = None
    for line in trace.splitlines():
        line = line.strip()
        if line.startswith("File") and "/mysensors/" in line:
            parts = line.split(",")
            fname = parts[0].split("/mysensors/")[-1].rstrip('"')
            func = parts[2].strip().replace("in ", "") if len(parts) > 2 else "?"
            site = f"{fname}:{func}"
    return site


def _diff(real, want):
    out = []
    for nid in sorted(set(real) | set(want), key=str):
        a, b = real.get(nid), want.get(nid)
        if a == b:
            continue
        if a is None or b is None:
            out.append({"node": nid, "real": a if a is None else "present", "model": b if b is None else "present"})
            continue
        for key in sorted(set(a) | set(b)):
            if a.get(key) != b.get(key):
                out.append({"node": nid, "attr": key, "real": repr(a.get(key))[:200], "model": repr(b.get(key))[:200]})
    return out[:6]


def _model_node_from_projection(nid, rec):
    from model.gateway_model import new_node  # pylint: disable=import-outside-toplevel
    node = new_node(nid)
    node["type"] = rec["type"]
    node["sketch_name"] = rec["sketch_name"]
    node["sketch_version"] = rec["sketch_version"]
    node["battery"] = rec["battery_level"]
    node["version"] = rec["protocol_version"]
    node["heartbeat"] = rec["heartbeat"]
    for cid, (ctype, desc, values) in rec["children"].items():
        node["children"][cid] = {"type": ctype, "desc": desc, "values": dict(values)}
    return node


def run_case(case, owners=None, keep_log=False):
    """Entry used by the check modules.  owners: set of property ids whose
    violation classes are reported (None = all)."""
    run = NetRun(case, keep_log=keep_log)
    res = run.execute()
    if owners is not None:
        res["violations"] = [v for v in res["violations"] if v.get("owner") in owners]
    res["trace"] = run.trace
    res["run"] = run
    return res


def case_digest(case):
    return hashlib.sha256(json.dumps(case, sort_keys=True, default=str).encode()).hexdigest()[:16]
