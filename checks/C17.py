"""C17 - MQTT topics and commands map one-to-one (partly a simulation target)."""
import hashlib

from model import tables
from sim import broker as simbroker
from sim import fs as simfs
from sim import kernel
from sim import world as W

ID = "C17"
LEVEL = "exploration"
RULE = ("MQTTGateway / AsyncMQTTGateway (versions 2.0-2.2, with and without persistence) against a simulated broker; per run a prefix "
        "configuration drawn from {empty, one level, nested, digit-only levels, prefixes that look like message levels such as 1/1/1/0/1 "
        "or 2, equal in/out prefixes}, retain flag, QoS per delivery; workload: node peers publish presentations, values, requests and "
        "stream requests under the in-prefix, the broker injects foreign topics (other prefix, fewer / more levels, the gateway's own "
        "out-prefix traffic, prefix as suffix) and duplicate deliveries, the controller sets values, publish/subscribe callbacks raise "
        "on drawn calls, optional clean restart with persistence (20% with a slow medium: reading the file back takes 0.5-61 s), command "
        "payloads with '/', leading blanks and tabs. Oracle: a delivered topic reaches message processing iff it is exactly "
        "in_prefix + five levels (model splits levels) and recv() never raises; the subscriptions cover presentation and internal "
        "topics, set/req topics of every presented or restored child and the stream topic of their nodes (wildcard matching); every "
        "publication fed back through a second passive gateway reproduces the published command (QoS>0 <=> ack=1); a raising callback "
        "leaves the pump alive. non-trivial = digit-only or message-like prefix, >=1 foreign topic rejected, >=1 loop-back compared; "
        "distinct = distinct (flavour, in_prefix, out_prefix, persistence, fault) tuples x run digests")
TIERS = {
    "quick": {"runs": 2500, "max_wall": 240, "minimise_s": 25, "chunk": 50},
    "thorough": {"runs": 100000, "max_wall": 3000, "minimise_s": 60, "chunk": 200},
}
FAULT_KINDS = ["foreign topic", "topic with fewer/more levels", "duplicate delivery (QoS 1)", "raising publish callback", "raising subscribe callback"]
REAL = ["mysensors.gateway_mqtt (topic mapping, subscriptions, MQTTTransport.recv/send)", "mysensors.task pump / inline jobs", "handlers", "persistence"]
STUBS = ["MQTT broker and client library (SimBroker)", "disk", "clock", "thread scheduling"]
ASSUMPTIONS = ["the prefix x topic bijection is an input-space statement; it is sampled through run configurations, not decided over all strings (DESIGN.md C17)",
               "a subscribe call that raised is exempt from the coverage requirement (the attempt was made)"]
REQUIRED_PROBES = ["foreign_rejected", "loopback_compared", "subscriptions_checked", "callback_raised_runs"]

PREFIXES = ["", "a", "mygateway1-out", "mygateway1-in", "a/b", "a/b/c-d", "2", "12/34", "1/1/1/0/1", "1/255/3/0/11", "0", "x-1/2", "gw/0/0/0/0/0",
            # a slash at the edge of the prefix (an empty topic level: unusual, legal, and part of the prefix as configured)
            "/ms", "ms/", "/a/b/", "/"]
MESSAGELIKE = {"2", "12/34", "1/1/1/0/1", "1/255/3/0/11", "0", "gw/0/0/0/0/0"}


def gen(rng, tier, index):
    in_prefix = rng.choice(PREFIXES)
    out_prefix = in_prefix if rng.random() < 0.15 else rng.choice(PREFIXES)
    flavour = rng.choice(["mqtt", "amqtt"])
    version = rng.choice(["2.0", "2.1", "2.2"])
    ops = []
    nodes = rng.sample([1, 2, 3, 42, 254, 0], rng.randint(1, 3))
    for nid in nodes:
        ops.append(["msg", f"{nid};255;0;0;17;2.1", 0])
        for cid in rng.sample([0, 1, 2, 10, 254], rng.randint(1, 2)):
            ctype = rng.choice([0, 3, 6, 23, 17, 18])  # (a child may be of a node / repeater type too: the payload is then a version)
            ops.append(["msg", f"{nid};{cid};0;0;{ctype};{'2.0' if ctype in (17, 18) else 'd'}", rng.choice([0, 0, 1])])
    for _ in range(rng.randint(6, 25)):
        roll = rng.random()
        nid = rng.choice(nodes)
        cid = rng.choice([0, 1, 2, 10, 254])
        if roll < 0.2:
            ops.append(["msg", f"{nid};{cid};1;{rng.choice([0, 1])};{rng.choice([0, 2, 24, 47])};{rng.choice(['1', '0', 'x', '20.5', ''])}", rng.choice([0, 1, 2])])
        elif roll < 0.3:
            ops.append(["msg", f"{nid};{cid};2;0;{rng.choice([0, 2, 24])};", rng.choice([0, 1, 2])])
        elif roll < 0.4:
            ops.append(["msg", f"{nid};255;3;0;{rng.choice([6, 1, 11, 0])};{rng.choice(['0', '50', 'sketch'])}", rng.choice([0, 1])])
        elif roll < 0.46:
            ops.append(["msg", f"{nid};255;4;0;{rng.choice([0, 2])};{'0100010000000000' + '0000' if rng.random() < 0.5 else '010001000000'}", 0])
        elif roll < 0.75:
            kind = rng.choice(["other_prefix", "fewer", "more_before", "more_after", "out_prefix", "prefix_as_suffix", "no_prefix", "empty_levels", "short_raw",
                               "few1", "few2", "few3", "word"])
            ops.append(["foreign", kind, f"{nid};{cid};1;0;{rng.choice([0, 2])};1", rng.choice([0, 1])])
        elif roll < 0.88:
            ops.append(["set", nid, cid, rng.choice([0, 2, 24, 24]), rng.choice(["1", "0", "x y", "22", "28/09/2026", "a/b", "/", "http://x/y?z=1", "", "  12:30", "\tindented", " /",
                                                                        "a text of more than twenty-five characters", "0123456789" * 6,
                                                                        # MQTT payloads are opaque bytes: line boundaries inside them are data
                                                                        "line one\nline two", "a\r\nb", "form\x0cfeed", "nel\x85x", "ls\u2028x"]), rng.choice([0, 1])])
        elif roll < 0.92:
            ops.append(["dup", f"{nid};{cid};1;1;24;dup", 1])
        elif roll < 0.96:
            # the application writes a command of its own (Gateway.send): any in-range header, any payload - the topic mapping,
            # not the validation of node traffic, decides what is published
            ops.append(["send", rng.choice([f"{nid};{cid};1;0;2;on", f"{nid};{cid};1;1;3;half", f"{nid};{cid};2;0;3;now", f"{nid};255;3;0;4;next",
                                            f"{nid};{cid};1;0;0;21.5", f"{nid};255;3;0;13;"])])
        else:
            ops.append(["probe"])
    if flavour == "amqtt" and rng.random() < 0.35:
        # the same gateway object is stopped and started again on a new (clean) broker session
        ops.insert(rng.randrange(len(ops) // 2, len(ops)), ["session_restart"])
    persist = rng.choice([None, None, "json", "pickle"])
    sched = {"policy": "serial"}
    if persist and rng.random() < 0.8:
        if flavour == "mqtt" and rng.random() < 0.5:
            # start-up of the threaded gateway races with retained presentations the broker delivers as soon
            # as the presentation topics are subscribed (client-library thread), under a pre-emptive schedule
            sched = {"policy": "rw", "seed": rng.getrandbits(32), "p": rng.choice([0.02, 0.08, 0.2])}
            new_node = rng.choice([77, 78, 150])
            retained = [[f"{new_node};255;0;0;17;2.1", 0], [f"{new_node};1;0;0;6;t", 0], [f"{nodes[0]};9;0;0;3;late child", 0],
                        [f"{new_node + 1};255;0;0;17;2.0", 0]]
            ops.insert(rng.randrange(len(ops) // 2, len(ops)), ["restart", retained[: rng.randint(1, 4)]])
        else:
            ops.insert(rng.randrange(len(ops) // 2, len(ops)), ["restart"])
    ops.append(["probe"])
    cfg = {"flavour": flavour, "version": version, "in_prefix": in_prefix, "out_prefix": out_prefix, "retain": rng.choice([True, False]),
           "persistence": persist, "sched": sched}
    if persist and rng.random() < 0.2:
        cfg["slow_load"] = rng.choice([0.5, 4.9, 5.5, 12.0, 61.0])
    if rng.random() < 0.25:
        cfg["pub_raise"] = sorted(rng.sample(range(30), 4))
    if rng.random() < 0.25:
        cfg["sub_raise"] = sorted(rng.sample(range(40), 5))
    return {"cfg": cfg, "ops": ops}


class _Stop(Exception):
    """The run cannot go on (the violation is recorded)."""


def _vio(cls, detail, **sig):
    sig["class"] = cls
    return {"class": cls, "detail": detail, "signature": sig, "owner": "C17"}


class RecordingBroker(simbroker.SimBroker):
    """SimBroker that also remembers subscribe *attempts* (a raising call is exempt)."""

    def __init__(self, *args, **kwargs):
        super().__init__(*args, **kwargs)
        self.attempted = []

    retained = ()  # (topic, payload, qos) the broker holds as retained messages

    def subscribe(self, topic, callback, qos):
        self.attempted.append(topic)
        res = super().subscribe(topic, callback, qos)
        hits = [m for m in self.retained if simbroker.topic_matches(topic, m[0])]
        if hits and self.world is not None:
            # retained messages arrive from the client library's own thread right after the SUBACK
            def client_thread(msgs=hits):
                for top, payload, q in msgs:
                    try:
                        callback(top, payload, q)
                    except Exception as exc:  # pylint: disable=broad-except
                        self.recv_errors.append((top, repr(exc), ""))
            self.retained = [m for m in self.retained if m not in hits]
            self.world.sim.spawn(client_thread, role="mqtt-client")
        return res


def _topic(prefix, line):
    parts = line.split(";", 5)
    return prefix + "/" + "/".join(parts[:5]), parts[5]


def _foreign(kind, in_prefix, out_prefix, line):
    parts = line.split(";", 5)
    levels = "/".join(parts[:5])
    if kind == "other_prefix":
        other = "zz" if in_prefix != "zz" else "yy"
        return f"{other}/{levels}"
    if kind == "fewer":
        return in_prefix + "/" + "/".join(parts[:4])
    if kind in ("few1", "few2", "few3"):
        # one to three levels behind the prefix (a status topic, a truncated one)
        return in_prefix + "/" + "/".join(parts[:int(kind[3])])
    if kind == "word":
        return in_prefix + "/status"
    if kind == "more_before":
        return in_prefix + "/9/" + levels
    if kind == "more_after":
        return in_prefix + "/" + levels + "/9"
    if kind == "out_prefix":
        return None if out_prefix == in_prefix else out_prefix + "/" + levels
    if kind == "prefix_as_suffix":
        return None if not in_prefix else levels + "/" + in_prefix
    if kind == "no_prefix":
        return None if not in_prefix else "/" + levels
    if kind == "empty_levels":
        return in_prefix + "/////"
    return "/".join(parts[:3])  # short_raw: fewer than five levels and no prefix at all


def _accepts(in_prefix, topic):
    """Model: exactly in_prefix followed by five levels (split, never substring search)."""
    if not topic.startswith(in_prefix + "/"):
        return None
    levels = topic[len(in_prefix) + 1:].split("/")
    if len(levels) != 5:
        return None
    return levels


def run(case):
    cfg = case["cfg"]
    flavour = cfg["flavour"]
    in_p, out_p = cfg["in_prefix"], cfg["out_prefix"]
    fs = simfs.SimFS()
    broker = RecordingBroker(in_p, out_p, pub_raise=cfg.get("pub_raise", ()), sub_raise=cfg.get("sub_raise", ()))
    kwargs = {"protocol_version": cfg["version"], "in_prefix": in_p, "out_prefix": out_p, "retain": cfg["retain"]}
    if cfg["persistence"]:
        kwargs["persistence"] = True
        kwargs["persistence_file"] = f"/work/ms.{cfg['persistence']}"
    world = W.World(flavour, kwargs, fs=fs, broker=broker, sched=cfg["sched"], max_steps=400_000)
    sim = world.sim
    violations, probes, faults = [], {}, {}
    incomplete = None
    presented = {}  # node -> set(children)
    sent_log = []
    try:
        try:
            def build():
                gateway = world.build()
                orig_send = gateway.tasks.transport.send

                def send(message):
                    if message:
                        sent_log.append(message)
                    return orig_send(message)

                gateway.tasks.transport.send = send
                return gateway

            gateway = build()
            try:
                world.start(persistence=bool(cfg["persistence"]))
            except (kernel.SimAbort, kernel.Deadlock):
                raise
            except Exception as exc:  # pylint: disable=broad-except
                # a subscribe callback of the application's MQTT client that fails is logged by the gateway, not passed on
                violations.append(_vio("start-raised", {"exc": repr(exc), "subs": [s_[0] for s_ in broker.subs][:8], "at": "first start"},
                                       exc=type(exc).__name__))
                raise _Stop()
            passive = None

            def get_passive():
                nonlocal passive
                if passive is None:
                    import mysensors.gateway_mqtt as gm  # pylint: disable=import-outside-toplevel
                    passive = gm.MQTTGateway(lambda *a: None, lambda *a: None, in_prefix=in_p, out_prefix=out_p, protocol_version=cfg["version"])
                return passive

            def health(where):
                for role, exc, trace in sim.died:
                    violations.append(_vio("thread-died", {"role": role, "exc": exc, "trace": trace[-1200:], "where": where}, role=role, exc=exc.split("(")[0]))
                del sim.died[:]
                if broker.recv_errors:
                    for topic, exc, trace in broker.recv_errors:
                        violations.append(_vio("recv-raised", {"topic": topic, "exc": exc, "trace": trace[-800:], "in_prefix": in_p}, exc=exc.split("(")[0]))
                    del broker.recv_errors[:]
                if world.loop is not None and world.loop.exceptions:
                    for msg, exc in world.loop.exceptions:
                        violations.append(_vio("loop-exception", {"message": msg, "exc": exc}, exc=exc.split("(")[0]))
                    del world.loop.exceptions[:]

            def deliver(topic, payload, qos):
                """recv() as the client library would call it.  Returns the strings handed to logic."""
                del world.logic_log[:]
                recv = world.gateway.tasks.transport.recv  # the callback handed to every subscribe call
                try:
                    if W.is_async(flavour):
                        world.on_loop(lambda: recv(topic, payload, qos))
                    else:
                        recv(topic, payload, qos)
                except Exception as exc:  # pylint: disable=broad-except
                    import traceback  # pylint: disable=import-outside-toplevel
                    broker.recv_errors.append((topic, repr(exc), traceback.format_exc()))
                world.settle()
                got = [e[0] for e in world.logic_log]
                del world.logic_log[:]
                return got

            def check_subscriptions(where):
                attempted = set(broker.attempted)
                need = [f"{in_p}/5/255/0/0/17", f"{in_p}/5/7/0/0/6", f"{in_p}/5/255/3/0/11", f"{in_p}/77/255/3/1/6"]
                for nid, kids in presented.items():
                    for cid in kids:
                        need += [f"{in_p}/{nid}/{cid}/1/0/2", f"{in_p}/{nid}/{cid}/1/1/24", f"{in_p}/{nid}/{cid}/2/0/0"]
                    if kids:
                        need.append(f"{in_p}/{nid}/255/4/0/0")
                        need.append(f"{in_p}/{nid}/255/4/0/2")
                for topic in need:
                    if broker.subscribed(topic):
                        continue
                    # exempt if a subscribe attempt that would have covered it raised
                    if any(simbroker.topic_matches(t, topic) for t in attempted) and broker.raised["sub"]:
                        probes["subscription_lost_to_raising_callback"] = 1
                        continue
                    violations.append(_vio("subscription-missing", {"topic": topic, "where": where, "subs": [s[0] for s in broker.subs][:12]},
                                           where=where, kind=topic[len(in_p):].split("/")[3]))
                    return
                probes["subscriptions_checked"] = probes.get("subscriptions_checked", 0) + 1

            health("start")
            check_subscriptions("start")
            n_pub = 0
            for op in case["ops"]:
                if violations:
                    break
                kind = op[0]
                if kind in ("msg", "dup"):
                    line, qos = op[1], op[2]
                    topic, payload = _topic(in_p, line)
                    parts = line.split(";", 5)
                    want = ";".join(parts[:3] + ["1" if qos > 0 else "0"] + parts[4:5] + [payload])
                    got = deliver(topic, payload, qos)
                    if kind == "dup":
                        got += deliver(topic, payload, qos)
                        faults["duplicate_delivery"] = faults.get("duplicate_delivery", 0) + 1
                    health(line)
                    if not got or any(g != want for g in got):
                        violations.append(_vio("own-topic-not-accepted", {"topic": topic, "payload": payload, "qos": qos, "want": want, "got": got,
                                                                          "in_prefix": in_p}, messagelike=in_p in MESSAGELIKE))
                        break
                    probes["own_topics_accepted"] = probes.get("own_topics_accepted", 0) + 1
                    fields = tables.parse_canonical(want)
                    if fields and fields[2] == 0 and tables.valid_frame(cfg["version"], *fields):
                        if fields[1] == 255:
                            presented.setdefault(fields[0], set())
                        elif fields[0] in presented:
                            presented[fields[0]].add(fields[1])
                            check_subscriptions("after presentation")
                elif kind == "foreign":
                    topic = _foreign(op[1], in_p, out_p, op[2])
                    if topic is None:
                        continue
                    levels = _accepts(in_p, topic)
                    got = deliver(topic, "1", op[3])
                    health("foreign " + topic)
                    faults["foreign_" + op[1]] = faults.get("foreign_" + op[1], 0) + 1
                    if levels is None:
                        if got:
                            violations.append(_vio("foreign-topic-accepted", {"topic": topic, "in_prefix": in_p, "handed_to_logic": got, "kind": op[1]}, kind=op[1]))
                            break
                        probes["foreign_rejected"] = probes.get("foreign_rejected", 0) + 1
                    else:
                        want = ";".join(levels[:3] + ["1" if op[3] > 0 else "0"] + levels[4:5] + ["1"])
                        if tables.parse_canonical(want) is None:
                            # five levels that are not a message header: accepted or not, nothing
                            # observable can follow - only "recv() does not raise" is checked
                            probes["degenerate_topic"] = probes.get("degenerate_topic", 0) + 1
                        elif got != [want]:
                            violations.append(_vio("own-topic-not-accepted", {"topic": topic, "want": want, "got": got, "in_prefix": in_p, "kind": op[1]},
                                                   messagelike=in_p in MESSAGELIKE))
                            break
                elif kind == "set":
                    n_before = len(broker.published)
                    try:
                        world.call("set_child_value", op[1], op[2], op[3], op[4], ack=op[5])
                    except Exception:  # pylint: disable=broad-except
                        pass
                    world.settle()
                    health("set")
                    if in_p == out_p and len(broker.published) > n_before and not violations:
                        # with equal prefixes the topic of a command is also an inbound topic: the node echoing the state it
                        # was just set to arrives on exactly the topic (and with the payload) the gateway last published
                        _t, etopic, epayload, eqos, _r = broker.published[-1]
                        levels = etopic[len(in_p) + 1:].split("/") if in_p else etopic.lstrip("/").split("/")
                        if len(levels) == 5:
                            want = ";".join(levels[:3] + ["1" if eqos > 0 else "0"] + levels[4:5] + [epayload])
                            if tables.parse_canonical(want) is not None:
                                got = deliver(etopic, epayload, eqos)
                                health("echo")
                                probes["echo_of_own_command"] = probes.get("echo_of_own_command", 0) + 1
                                if got != [want] and not violations:
                                    violations.append(_vio("own-topic-not-accepted", {"topic": etopic, "payload": epayload, "want": want, "got": got,
                                                                                      "in_prefix": in_p, "kind": "echo of the last publication"},
                                                           messagelike=in_p in MESSAGELIKE))
                                    break
                elif kind == "send":
                    try:
                        world.call("send", op[1] + "\n")
                    except Exception as exc:  # pylint: disable=broad-except
                        violations.append(_vio("send-raised", {"command": op[1], "exc": repr(exc)}, exc=type(exc).__name__))
                        break
                    world.settle()
                    health("send")
                    probes["application_commands_sent"] = probes.get("application_commands_sent", 0) + 1
                elif kind == "probe":
                    before = len(broker.published)
                    got = deliver(f"{in_p}/78/255/3/0/6", "0", 0)
                    health("probe")
                    if len(broker.published) == before and not violations:
                        violations.append(_vio("pump-silent", {"note": "config request got no publication", "handed_to_logic": got,
                                                               "raised": dict(broker.raised)}))
                        break
                    probes["probes_answered"] = probes.get("probes_answered", 0) + 1
                elif kind == "session_restart":
                    world.stop()
                    world.settle()
                    del broker.subs[:]
                    del broker.attempted[:]
                    world.acall(gateway.start())
                    world.settle()
                    health("session restart")
                    check_subscriptions("after session restart")
                    probes["session_restarts"] = probes.get("session_restarts", 0) + 1
                elif kind == "restart":
                    world.stop()
                    world.settle()
                    del broker.subs[:]
                    del broker.attempted[:]
                    gateway = build()
                    if len(op) > 1 and flavour == "mqtt":
                        broker.retained = [(_topic(in_p, line)[0], _topic(in_p, line)[1], q) for line, q in op[1]]
                        box = {}
                        done = kernel.SimEvent()

                        def starter(gw=gateway):
                            try:
                                gw.start_persistence()
                                gw.start()
                            except Exception as exc:  # pylint: disable=broad-except
                                box["exc"] = exc
                            finally:
                                done.set()

                        sim.spawn(starter, role="starter")
                        done.wait(30.0)
                        world.settle()
                        probes["racing_restarts"] = probes.get("racing_restarts", 0) + 1
                        if "exc" in box:
                            violations.append(_vio("start-raised", {"exc": repr(box["exc"]), "subs": [s_[0] for s_ in broker.subs][:8]},
                                                   exc=type(box["exc"]).__name__))
                            break
                    else:
                        if cfg.get("slow_load"):
                            # the medium is slow: reading the file back takes a while (the restore is not done sooner)
                            world.fs.read_delays[world.fs.norm(f"/work/ms.{cfg['persistence']}")] = cfg["slow_load"]
                            probes["slow_restores"] = probes.get("slow_restores", 0) + 1
                        world.start(persistence=True)
                        if cfg.get("slow_load"):
                            world.advance(cfg["slow_load"] + 1.0)  # whatever still reads the file has finished by now
                    health("restart")
                    restored = {nid: set(s.children) for nid, s in gateway.sensors.items()}
                    if restored != {k: v for k, v in presented.items()}:
                        probes["restore_differs_from_presented"] = 1
                    presented = restored
                    check_subscriptions("after restart")
                    probes["restarts"] = probes.get("restarts", 0) + 1
                # ---- loop-back of everything published since the last step ---------------------------
                new_pubs = broker.published[n_pub:]
                new_sent = sent_log[n_pub:]
                n_pub = len(broker.published)
                if len(new_pubs) != len(new_sent) and not violations:
                    violations.append(_vio("publish-count", {"sent": new_sent, "published": [p[1:4] for p in new_pubs]}))
                    break
                for (_t, topic, payload, qos, retain), message in zip(new_pubs, new_sent):
                    if retain != cfg["retain"]:
                        violations.append(_vio("retain-flag", {"topic": topic, "retain": retain}))
                        break
                    if not topic.startswith(out_p + "/"):
                        violations.append(_vio("published-outside-out-prefix", {"topic": topic, "out_prefix": out_p}))
                        break
                    back_topic = in_p + topic[len(out_p):]
                    psv = get_passive()
                    psv.tasks.queue.clear()
                    try:
                        psv.tasks.transport.recv(back_topic, payload, qos)
                    except Exception as exc:  # pylint: disable=broad-except
                        violations.append(_vio("recv-raised", {"topic": back_topic, "exc": repr(exc), "in_prefix": in_p, "loopback": True}, exc=type(exc).__name__))
                        break
                    jobs = list(psv.tasks.queue)
                    got = jobs[0][1][0] if jobs else None
                    want = message.rstrip("\n")
                    wparts = want.split(";", 5)
                    if len(wparts) == 6:
                        if (qos > 0) != (wparts[3] == "1"):
                            violations.append(_vio("qos-ack-mismatch", {"message": want, "qos": qos}))
                            break
                    if got != want:
                        violations.append(_vio("loopback-mismatch", {"published": [topic, payload, qos], "command": want, "back": got, "in_prefix": in_p,
                                                                     "out_prefix": out_p}, messagelike=(in_p in MESSAGELIKE or out_p in MESSAGELIKE)))
                        break
                    probes["loopback_compared"] = probes.get("loopback_compared", 0) + 1
            if broker.raised["pub"] or broker.raised["sub"]:
                probes["callback_raised_runs"] = 1
                faults["pub_raise"] = broker.raised["pub"]
                faults["sub_raise"] = broker.raised["sub"]
        except _Stop:
            pass
        except kernel.SimAbort as exc:
            incomplete = str(exc)
        except kernel.Deadlock as exc:
            incomplete = "deadlock: " + str(exc)[:200]
    finally:
        digest = sim.digest()
        steps = sim.steps
        now = sim.now
        world.close()
    nontrivial = bool((in_p in MESSAGELIKE or out_p in MESSAGELIKE) and probes.get("foreign_rejected") and probes.get("loopback_compared"))
    key = hashlib.sha256(f"{flavour}|{in_p}|{out_p}|{cfg['persistence']}|{digest}".encode()).hexdigest()[:20]
    return {"violations": violations, "digest": digest, "nontrivial": nontrivial, "key": key, "probes": probes, "faults": faults,
            "steps": steps, "sim_seconds": now, "incomplete": incomplete, "states": [],
            "sample": {"cfg": {k: v for k, v in cfg.items() if k != "sched"}, "ops": case["ops"][:12]},
            "extra": {"prefix_pairs": [f"{in_p!r}->{out_p!r}"]}}


def coverage_post(cov):
    pairs = cov.get("prefix_pairs") or []
    cov["distinct_prefix_pairs"] = len(pairs)
    cov["prefix_pairs"] = pairs[:30]
