"""Simulated gateway hardware: serial port, TCP socket, and the link behind it.

One ``Device`` per world stands for the physical MySensors gateway and the
radio network behind it.  Connections (FakeSerial / FakeSocket / the asyncio
transport in aio.py) attach to it.  Everything written by the library is
logged with the simulated time, a sequence number, the connection id and
whether that connection was open at the instant of the write.
"""
import socket as _real_socket

import serial as _real_serial
import serial.threaded as _real_serial_threaded
import serial.tools.list_ports as _real_list_ports

from . import kernel

VERSION_PROBE = b"0;255;3;0;2;\n"


class Device:
    """Gateway hardware + network behind it, as the controller sees it."""

    def __init__(self, sim, kind):
        self.sim = sim
        self.kind = kind  # "serial" | "tcp"
        self.conns = []
        self.connect_plan = []  # outcomes of the next connect attempts
        self.default_outcome = "ok"
        self.attempts = []  # (t, outcome, args)
        self.writes = []  # (t, seq, conn_id, open, bytes)
        self.wseq = 0
        self.line_hooks = []  # fn(line_bytes, conn) called for each complete outbound line
        self.auto_version = True  # answer I_VERSION probes (TCP watchdog)
        self.version_latency = 0.0  # None = never answer
        self.version_plan = []  # per-probe latency overrides
        self.probes = []  # (t, conn_id) of every version probe seen
        self.answers = []  # (t_probe, t_answer, conn_id)
        self.write_hook = None  # fn(conn, data) before a write is logged (fault injection)
        self.slow_send = False  # TCP: sendall() takes a moment (send buffer nearly full)
        self.partial = {}
        self.dropped_inject = 0
        self.markers = []  # (wseq position, text) harness markers interleaved with writes
        self.greeting = b""  # bytes delivered the moment the next connection is established

    # -- connection establishment -------------------------------------------
    def next_outcome(self, args):
        outcome = self.connect_plan.pop(0) if self.connect_plan else self.default_outcome
        self.attempts.append((self.sim.now, outcome, args))
        self.sim.ev("connect", outcome)
        self.sim.count("connect_" + outcome)
        return outcome

    def attach(self, conn):
        conn.conn_id = len(self.conns)
        self.conns.append(conn)
        self.sim.ev("conn_open", conn.conn_id)
        if self.greeting:
            # bytes the peer sends the moment the connection exists (an ethernet gateway's boot messages): they are waiting
            # when the controller's reader first looks.  (Delivered through a zero-delay event so that the asyncio transport,
            # which is still being constructed here, has announced connection_made first.)
            data, self.greeting = self.greeting, b""
            self.sim.call_at(self.sim.now, lambda: conn.deliver(data))
        return conn

    def current(self):
        for conn in reversed(self.conns):
            if conn.is_open:
                return conn
        return None

    def open_conns(self):
        return [c for c in self.conns if c.is_open]

    # -- inbound ------------------------------------------------------------
    def inject(self, data, conn=None):
        """Bytes arriving from the network for the controller."""
        conn = conn or self.current()
        if conn is None or not conn.is_open:
            self.dropped_inject += len(data)
            return False
        conn.deliver(data)
        return True

    # -- outbound -----------------------------------------------------------
    def mark(self, text):
        self.markers.append((self.wseq, text))

    def record_write(self, conn, data):
        data = bytes(data)
        self.wseq += 1
        self.writes.append((self.sim.now, self.wseq, conn.conn_id, conn.is_open, data))
        self.sim.ev("write", conn.conn_id, conn.is_open, data)
        buf = self.partial.setdefault(conn.conn_id, bytearray())
        buf.extend(data)
        while b"\n" in buf:
            line, _, rest = bytes(buf).partition(b"\n")
            del buf[:]
            buf.extend(rest)
            self._outbound_line(line + b"\n", conn)

    def _outbound_line(self, line, conn):
        if line == VERSION_PROBE:
            self.probes.append((self.sim.now, conn.conn_id))
            if self.auto_version and not getattr(conn, "eof", False) and not getattr(conn, "reset", False):
                lat = self.version_plan.pop(0) if self.version_plan else self.version_latency
                if lat is not None:
                    self.answers.append((self.sim.now, self.sim.now + max(0.0, lat), conn.conn_id))
                    reply = b"0;255;3;0;2;2.3.2\n"
                    if lat <= 0:
                        self.inject(reply, conn)
                    else:
                        self.sim.call_at(self.sim.now + lat, lambda: self.inject(reply, conn))
        for hook in list(self.line_hooks):
            hook(line, conn)

    def lines(self):
        """All complete lines written so far (bytes joined over writes)."""
        data = b"".join(w[4] for w in self.writes)
        return data.split(b"\n")[:-1]


class _Conn:
    conn_id = -1

    def __init__(self, device):
        self.device = device
        self.sim = device.sim
        self.is_open = True
        self.inbuf = bytearray()
        self.reader = None  # ThreadRec blocked in read
        self.read_exc = None
        self.write_exc = None  # exception to raise on next write
        self.eof = False
        self.cancelled = False
        self.opened_at = device.sim.now
        self.closed_at = None
        self.closed_by = None  # role of the thread that closed it
        device.attach(self)

    def deliver(self, data):
        if self.eof or getattr(self, "reset", False):
            return  # the peer is gone: nothing arrives any more
        self.inbuf.extend(data)
        self._wake_reader("data")

    def _wake_reader(self, why):
        rec = self.reader
        if rec is not None:
            self.reader = None
            self.sim._wake(rec, why)

    def fail_read(self, exc):
        self.read_exc = exc
        self._wake_reader("error")

    def fail_write(self, exc):
        self.write_exc = exc

    def _do_write(self, data):
        if self.device.write_hook is not None:
            self.device.write_hook(self, data)
        if self.write_exc is not None:
            exc, self.write_exc = self.write_exc, None
            self.sim.count("fault_write_error")
            raise exc
        self.device.record_write(self, data)
        return len(data)


class FakeSerial(_Conn):
    """What serial.serial_for_url returns."""

    def __init__(self, device, port, baud, timeout):
        super().__init__(device)
        self.port = self.name = port
        self.baudrate = baud
        self.timeout = timeout

    def __repr__(self):
        return f"FakeSerial<{self.port} #{self.conn_id}>"

    @property
    def in_waiting(self):
        if not self.is_open:
            raise _real_serial.PortNotOpenError()
        return len(self.inbuf)

    def read(self, size=1):
        if not self.is_open:
            raise _real_serial.PortNotOpenError()
        if self.read_exc is not None:
            exc, self.read_exc = self.read_exc, None
            self.sim.count("fault_read_error")
            raise exc
        if not self.inbuf:
            if self.cancelled:
                self.cancelled = False
                return b""
            self.reader = self.sim._rec_of_current()
            self.sim.block(("read", self.conn_id), self.timeout)
            self.reader = None
            if self.read_exc is not None:
                exc, self.read_exc = self.read_exc, None
                self.sim.count("fault_read_error")
                raise exc
            if self.cancelled:
                self.cancelled = False
                return b""
            if not self.is_open:
                raise _real_serial.SerialException("device disconnected while reading")
        data = bytes(self.inbuf[:size])
        del self.inbuf[:size]
        return data

    def cancel_read(self):
        if self.reader is not None:
            self.cancelled = True
            self._wake_reader("cancel")

    def write(self, data):
        if not self.is_open:
            raise _real_serial.PortNotOpenError()
        return self._do_write(data)

    def flush(self):
        # pyserial: every operation on a closed port raises PortNotOpenError (a SerialException, an OSError)
        if not self.is_open:
            raise _real_serial.PortNotOpenError()
        return None

    def close(self):
        if self.is_open:
            self.is_open = False
            self.closed_at = self.sim.now
            cur = self.sim.current
            self.closed_by = cur.role if cur is not None else None
            self.sim.ev("conn_close", self.conn_id)
            self._wake_reader("closed")


class FakeSocket(_Conn):
    """What socket.create_connection returns."""

    def __init__(self, device, address, timeout):
        super().__init__(device)
        self.address = address
        self.timeout = timeout
        self.reset = False

    def __repr__(self):
        return f"FakeSocket<{self.address} #{self.conn_id}>"

    def setblocking(self, flag):
        self.blocking = flag

    def settimeout(self, value):
        self.timeout = value

    def fileno(self):
        return 1000 + self.conn_id if self.is_open else -1

    def readable(self):
        return bool(self.inbuf) or self.eof or self.reset or self.read_exc is not None

    def recv(self, size):
        if not self.is_open:
            raise OSError(9, "Bad file descriptor")
        if self.read_exc is not None:
            exc, self.read_exc = self.read_exc, None
            self.sim.count("fault_read_error")
            raise exc
        if self.inbuf:
            data = bytes(self.inbuf[:size])
            del self.inbuf[:size]
            return data
        if self.reset:
            self.sim.count("fault_reset")
            raise ConnectionResetError(104, "Connection reset by peer")
        if self.eof:
            return b""
        raise BlockingIOError(11, "Resource temporarily unavailable")

    def sendall(self, data):
        if not self.is_open:
            raise OSError(9, "Bad file descriptor")
        if self.reset:
            raise BrokenPipeError(32, "Broken pipe")
        if self.device.slow_send and len(data) > 1 and self.write_exc is None:
            # a nearly full send buffer: sendall() pushes part of the data, waits, pushes the rest.  Whoever
            # closes the socket in between leaves a truncated command on the wire.
            self.sim.count("slow_sendall")
            self.sim.sleep(0.001)
            if not self.is_open:
                self.device.record_write(self, bytes(data[: len(data) // 2]))
                raise OSError(9, "Bad file descriptor")
        self._do_write(data)

    send = sendall

    def close(self):
        if self.is_open:
            self.is_open = False
            self.closed_at = self.sim.now
            cur = self.sim.current
            self.closed_by = cur.role if cur is not None else None
            self.sim.ev("conn_close", self.conn_id)
            self._wake_reader("closed")

    def shutdown(self, how):
        return None


# --------------------------------------------------------------------------
# Module shims bound into the library's namespaces
# --------------------------------------------------------------------------
class SerialShim:
    """Stands in for the ``serial`` package inside mysensors.gateway_serial."""

    SerialException = _real_serial.SerialException
    SerialTimeoutException = _real_serial.SerialTimeoutException
    PortNotOpenError = _real_serial.PortNotOpenError
    threaded = _real_serial_threaded

    class tools:  # pylint: disable=invalid-name,too-few-public-methods
        list_ports = _real_list_ports

    @staticmethod
    def serial_for_url(port, baudrate=9600, *args, **kwargs):
        sim = kernel.CURRENT
        device = sim.device
        outcome = device.next_outcome(("serial", port, baudrate, kwargs.get("timeout")))
        if outcome == "slow":
            sim.block(("connect",), 0.25)  # the open takes a while (USB re-enumeration, ...)
            outcome = "ok"
        if outcome != "ok":
            raise _real_serial.SerialException(f"could not open port {port}: simulated {outcome}")
        return FakeSerial(device, port, baudrate, kwargs.get("timeout"))


class SocketShim:
    """Stands in for ``socket`` inside mysensors.gateway_tcp."""

    timeout = _real_socket.timeout
    error = OSError

    @staticmethod
    def create_connection(address, timeout=None, *args, **kwargs):
        sim = kernel.CURRENT
        device = sim.device
        outcome = device.next_outcome(("tcp", tuple(address), timeout))
        if outcome == "slow":
            sim.block(("connect",), 0.25)  # a slow three-way handshake
            outcome = "ok"
        if outcome == "ok":
            return FakeSocket(device, tuple(address), timeout)
        if outcome == "timeout":
            sim.block(("connect",), timeout if timeout is not None else 120.0)
            raise _real_socket.timeout("timed out")
        if outcome == "unreach":
            sim.block(("connect",), min(3.0, timeout or 3.0))
            raise OSError(113, "No route to host")
        raise ConnectionRefusedError(111, "Connection refused")


class SelectShim:
    """Stands in for ``select`` inside mysensors.gateway_tcp."""

    @staticmethod
    def select(rlist, wlist, xlist, timeout=None):
        rready, wready = [], []
        for sock in rlist:
            if sock.fileno() < 0:
                raise ValueError("file descriptor cannot be a negative integer (-1)")
            if sock.readable():
                rready.append(sock)
        for sock in wlist:
            if sock.fileno() < 0:
                raise ValueError("file descriptor cannot be a negative integer (-1)")
            wready.append(sock)
        if not rready and not wready and rlist and (timeout is None or timeout > 0):
            # nothing is ready: select() really waits - until something arrives on (or happens to) the first socket, or the
            # timeout elapses (None: for ever).  A socket closed by another thread meanwhile is an error for the waiter.
            sock = rlist[0]
            sim = sock.sim
            rec = sim._rec_of_current()  # pylint: disable=protected-access
            sock.reader = rec
            t0 = sim.now
            reason = sim.block(("select",), timeout)
            if sock.reader is rec:
                sock.reader = None
            if reason == "closed":
                # close() in another thread does not interrupt a select() that is already waiting on the descriptor: it sits
                # out its timeout (for ever, without one) and then finds the descriptor gone
                left = None if timeout is None else max(0.0, timeout - (sim.now - t0))
                if left is None or left > 0:
                    sim.block(("select",), left)
            for sock in rlist:
                if sock.fileno() < 0:
                    raise ValueError("file descriptor cannot be a negative integer (-1)")
                if sock.readable():
                    rready.append(sock)
        return rready, wready, []
