"""World: the real gateway classes wired to the simulated environment.

``install()`` rebinds the library's module globals to the shims once per
process.  ``World`` builds one gateway of a given flavour through its public
constructor, starts it (real pump / reader / connect threads or asyncio tasks
under the kernel's scheduler) and offers the driver API used by the checks:
feed bytes, call controller methods, advance simulated time, observe.
"""
import asyncio
import gc
import hashlib
import logging
import os
import subprocess
import sys

REPO = os.environ.get("VERIF_REPO", "/repo")
if REPO not in sys.path:
    sys.path.insert(0, REPO)

import mysensors  # noqa: E402  pylint: disable=wrong-import-position
import mysensors.gateway_mqtt  # noqa: E402,F401
import mysensors.gateway_serial  # noqa: E402
import mysensors.gateway_tcp  # noqa: E402
import mysensors.handler  # noqa: E402
import mysensors.ota  # noqa: E402
import mysensors.persistence  # noqa: E402
import mysensors.task  # noqa: E402
import mysensors.transport  # noqa: E402
import serial.threaded  # noqa: E402

from . import aio, devices, fs as simfs, kernel  # noqa: E402

FLAVOURS = ("serial", "tcp", "aserial", "atcp", "mqtt", "amqtt")
VERSIONS = ("1.4", "1.5", "2.0", "2.1", "2.2")

_INSTALLED = False


def repo_file_set():
    base = os.path.dirname(mysensors.__file__)
    files = {os.path.join(base, f) for f in os.listdir(base) if f.endswith(".py")}
    files.add(serial.threaded.__file__)
    return files


def tree_hash():
    base = os.path.dirname(mysensors.__file__)
    h = hashlib.sha256()
    for name in sorted(os.listdir(base)):
        if name.endswith(".py"):
            h.update(name.encode())
            with open(os.path.join(base, name), "rb") as fh:
                h.update(fh.read())
    return h.hexdigest()[:16]


def tree_describe():
    try:
        out = subprocess.run(["git", "-C", REPO, "describe", "--always", "--dirty"],
                             capture_output=True, text=True, timeout=10, check=False)
        return out.stdout.strip()
    except Exception:  # pylint: disable=broad-except
        return "unknown"


def install():
    """Bind the shims (idempotent).  Also warms every lazily imported module so
    that the first simulated run executes the same lines as every later one."""
    global _INSTALLED  # pylint: disable=global-statement
    if _INSTALLED:
        return
    assert os.path.realpath(mysensors.__file__).startswith(os.path.realpath(REPO)), mysensors.__file__
    logging.disable(logging.CRITICAL)
    # The cyclic collector runs at allocation-count dependent moments and finalises garbage of
    # *earlier* runs (pending coroutines of a torn-down loop execute their except/finally blocks
    # in traced library code) inside whatever thread happens to allocate: that perturbs the
    # line-event numbering of the current run.  Collection is done explicitly in World.close().
    gc.disable()
    kernel.install_thread_patches()
    import threading as _real_threading  # pylint: disable=import-outside-toplevel
    import time as _real_time  # pylint: disable=import-outside-toplevel
    for name, mod in list(sys.modules.items()):
        # every library module that refers to threading / time gets the shims (a real lock
        # held by a parked thread would hang the simulation)
        if mod is None or not (name == "mysensors" or name.startswith("mysensors.") or name == "serial.threaded"):
            continue
        if getattr(mod, "threading", None) is _real_threading:
            mod.threading = kernel.ThreadingShim
        if getattr(mod, "time", None) is _real_time:
            mod.time = kernel.TimeShim
        # ... and every library module sees the simulated file system, not only the two that touch files today
        if name.startswith("mysensors") and getattr(mod, "os", None) is os:
            mod.os = simfs.DynOsShim
        if name.startswith("mysensors"):
            mod.open = simfs.FsHolder.open
    mysensors.task.timer = kernel.sim_timer
    # the two attributes that sender, reader, connect thread and the application's stop()/disconnect() share: every read
    # is a pre-emption candidate (line events cannot split "if self.protocol and self.protocol.transport")
    kernel.instrument_shared_attr(mysensors.transport.Transport, "protocol")
    kernel.instrument_shared_attr(mysensors.transport.BaseMySensorsProtocol, "transport")
    mysensors.gateway_serial.serial = devices.SerialShim
    mysensors.gateway_serial.serial_asyncio = aio.SerialAsyncioShim
    mysensors.gateway_tcp.socket = devices.SocketShim
    mysensors.gateway_tcp.select = devices.SelectShim
    for mod in (mysensors.persistence, mysensors.ota):
        mod.open = simfs.FsHolder.open
        mod.os = simfs.DynOsShim
    # observation seam: every call of Persistence.save_sensors (scheduled or final) is
    # reported to the active run (begin / end with the exception, if any)
    _orig_save = mysensors.persistence.Persistence.save_sensors

    def save_sensors(self):
        sim = kernel.CURRENT
        hook = getattr(sim, "save_hook", None) if sim is not None else None
        if hook is not None:
            hook("begin", self, None)
        try:
            res = _orig_save(self)
        except BaseException as exc:
            if hook is not None:
                hook("end", self, exc)
            raise
        if hook is not None:
            hook("end", self, None)
        return res

    mysensors.persistence.Persistence.save_sensors = save_sensors
    # warm-up: import every const module, build every gateway class once
    from mysensors import const  # pylint: disable=import-outside-toplevel
    for ver in VERSIONS:
        const.get_const(ver)
    simfs.FsHolder.fs = simfs.SimFS()
    for ver in VERSIONS:
        for flavour in FLAVOURS:
            try:
                _construct(flavour, {"protocol_version": ver}, None)
            except Exception:  # pylint: disable=broad-except
                pass
    simfs.FsHolder.fs = None
    _INSTALLED = True


def _construct(flavour, kwargs, broker):
    kwargs = dict(kwargs)
    if flavour == "serial":
        port = kwargs.pop("port", "/dev/ttyFAKE")
        return mysensors.gateway_serial.SerialGateway(port, **kwargs)
    if flavour == "aserial":
        port = kwargs.pop("port", "/dev/ttyFAKE")
        return mysensors.gateway_serial.AsyncSerialGateway(port, **kwargs)
    if flavour == "tcp":
        host = kwargs.pop("host", "10.0.0.9")
        return mysensors.gateway_tcp.TCPGateway(host, **kwargs)
    if flavour == "atcp":
        host = kwargs.pop("host", "10.0.0.9")
        return mysensors.gateway_tcp.AsyncTCPGateway(host, **kwargs)
    pub = broker.publish if broker is not None else (lambda *a: None)
    sub = broker.subscribe if broker is not None else (lambda *a: None)
    if flavour == "mqtt":
        return mysensors.gateway_mqtt.MQTTGateway(pub, sub, **kwargs)
    if flavour == "amqtt":
        return mysensors.gateway_mqtt.AsyncMQTTGateway(pub, sub, **kwargs)
    raise ValueError(flavour)


def is_async(flavour):
    return flavour in ("aserial", "atcp", "amqtt")


def is_mqtt(flavour):
    return flavour in ("mqtt", "amqtt")


class World:
    """One simulated deployment: kernel + device/broker + disk + one gateway."""

    def __init__(self, flavour="serial", gw_kwargs=None, sched=None, epoch=1_600_000_000.0,
                 utc_offset=0, fs=None, broker=None, keep_log=False, max_steps=400_000,
                 window=None, traced_extra=(), max_sim_time=None, conn_callbacks=True):
        install()
        self.flavour = flavour
        self.gw_kwargs = dict(gw_kwargs or {})
        traced = repo_file_set() | set(traced_extra)
        self.sim = kernel.Sim(sched, epoch=epoch, utc_offset=utc_offset, keep_log=keep_log,
                              max_steps=max_steps, traced_files=traced, window=window,
                              max_sim_time=max_sim_time)
        kernel.activate(self.sim)
        self.sim.attach_driver()
        self.fs = fs if fs is not None else simfs.SimFS()
        simfs.FsHolder.fs = self.fs
        kind = "tcp" if flavour in ("tcp", "atcp") else "serial"
        self.device = devices.Device(self.sim, kind)
        self.sim.device = self.device
        self.broker = broker
        if broker is not None:
            broker.bind(self)
        self.loop = None
        self.loop_thread = None
        self.gateway = None
        self.callbacks = []  # event callback log
        self.conn_events = []  # (t, "made"/"lost", arg)
        self.conn_callbacks = conn_callbacks
        self.conn_hook = None  # fn(kind, exc) invoked inside the connection-lost callback
        self.made_hook = None  # fn(gateway) invoked inside the connection-made callback
        self.event_hook = None  # fn(msg) invoked inside the event callback
        self.logic_hook = None  # fn(line) invoked when the processing of a line begins (in that thread)
        self.logic_log = []  # (line, begin_wseq)
        self.gateways = []
        self.closed = False

    # -- gateway lifecycle ---------------------------------------------------------
    def build(self, **override):
        kwargs = dict(self.gw_kwargs)
        kwargs.update(override)
        if "event_callback" not in kwargs:
            kwargs["event_callback"] = self._event_callback
        elif kwargs["event_callback"] is None:
            kwargs.pop("event_callback")  # the documented default: no callback at all
        gateway = _construct(self.flavour, kwargs, self.broker)
        if self.conn_callbacks:
            gateway.on_conn_made = self._on_conn_made
            gateway.on_conn_lost = self._on_conn_lost
        self._wrap_logic(gateway)
        self.gateway = gateway
        self.gateways.append(gateway)
        return gateway

    def _wrap_logic(self, gateway):
        orig = gateway.logic
        world = self

        def logic(data):
            world.device.mark(("begin", data))
            world.sim.ev("logic", data)
            world.sim.count("logic_calls")
            if world.logic_hook is not None:
                world.logic_hook(data)
            idx = len(world.logic_log)
            world.logic_log.append([data, len(world.callbacks), None, None])
            try:
                res = orig(data)
            except BaseException as exc:
                world.logic_log[idx][2] = ("raised", type(exc).__name__, str(exc)[:200])
                raise
            world.logic_log[idx][2] = ("ret", res)
            world.logic_log[idx][3] = len(world.callbacks)
            return res

        gateway.logic = logic

    def _event_callback(self, msg):
        entry = (msg.node_id, msg.child_id, int(msg.type), msg.ack, int(msg.sub_type), msg.payload)
        self.sim.ev("callback", entry)
        snap = None
        if self.event_hook is not None:
            snap = self.event_hook(msg)
        self.callbacks.append((entry, snap))

    def _on_conn_made(self, gateway):
        self.conn_events.append((self.sim.now, "made", gateway, None))
        self.sim.ev("conn_made")
        if self.made_hook is not None:
            self.made_hook(gateway)  # what the application does in its connection-made callback (runs in the calling thread)

    def _on_conn_lost(self, gateway, exc):
        self.conn_events.append((self.sim.now, "lost", gateway, exc))
        self.sim.ev("conn_lost", type(exc).__name__ if exc is not None else None)
        if self.conn_hook is not None:
            self.conn_hook("lost", exc)  # the application's callback may take its time (runs in the calling thread)

    def ensure_loop(self):
        if self.loop is None:
            self.loop = aio.SimLoop(self.sim)
            self.loop_thread = self.sim.spawn(self._loop_main, role="loop")
        return self.loop

    def _loop_main(self):
        asyncio.set_event_loop(None)
        self.loop.run_forever()

    def acall(self, coro):
        """Run a coroutine on the loop thread; the driver blocks (simulated)."""
        loop = self.ensure_loop()
        done = kernel.SimEvent()
        box = {}

        def _start():
            task = loop.create_task(coro)

            def _done(tsk):
                box["task"] = tsk
                done.set()

            task.add_done_callback(_done)

        loop.call_soon_threadsafe(_start)
        done.wait()
        task = box["task"]
        if task.cancelled():
            raise asyncio.CancelledError()
        exc = task.exception()
        if exc is not None:
            raise exc
        return task.result()

    def on_loop(self, fn, *args):
        """Run a plain function on the loop thread (for non-threadsafe calls)."""
        async def _wrap():
            return fn(*args)

        return self.acall(_wrap())

    def start(self, persistence=False):
        gateway = self.gateway
        self.persist_t0 = self.sim.now  # the save schedule counts its first 10 s from here
        self.after_start_persistence = None  # what the tree held at the instant start_persistence() returned
        if is_async(self.flavour):
            if persistence:
                async def _start_persistence():
                    await gateway.start_persistence()
                    # same loop iteration, nothing else has run in between: "restored" means restored NOW
                    self.after_start_persistence = projection(gateway.sensors)

                self.acall(_start_persistence())
            self.acall(gateway.start())
        else:
            if persistence:
                gateway.start_persistence()
                self.after_start_persistence = projection(gateway.sensors)
            gateway.start()
        self.settle()

    def start_persistence_only(self):
        """The application calls start_persistence() on a gateway whose link is already up (it called start() first)."""
        gateway = self.gateway
        self.persist_t0 = self.sim.now
        if is_async(self.flavour):
            async def _start_persistence():
                await gateway.start_persistence()
                self.after_start_persistence = projection(gateway.sensors)

            self.acall(_start_persistence())
        else:
            gateway.start_persistence()
            self.after_start_persistence = projection(gateway.sensors)
        self.settle()

    def stop(self):
        gateway = self.gateway
        if is_async(self.flavour):
            self.acall(gateway.stop())
        else:
            gateway.stop()

    def call(self, name, *args, **kwargs):
        """Controller call into the gateway from the right context."""
        gateway = self.gateway
        fn = getattr(gateway, name)
        if is_async(self.flavour):
            if asyncio.iscoroutinefunction(fn):
                return self.acall(fn(*args, **kwargs))
            return self.on_loop(lambda: fn(*args, **kwargs))
        return fn(*args, **kwargs)

    # -- time / quiescence ---------------------------------------------------------
    def busy(self):
        gateway = self.gateway
        if gateway is not None and gateway.tasks is not None and gateway.tasks.queue:
            return True
        for conn in self.device.open_conns():
            if conn.inbuf:
                return True
        if self.loop is not None and (self.loop._ready or self.loop._wake.is_set()):
            return True
        if self.broker is not None and self.broker.pending():
            return True
        if self.sim.stalled():
            return True  # a thread is sitting out an injected stall in the middle of something
        return False

    def settle(self, max_rounds=400):
        """Let everything that is already in flight finish (bounded)."""
        sim = self.sim
        for _ in range(max_rounds):
            sim.wait_idle()
            if not self.busy():
                return True
            sim.sleep(0.021)
        return False

    def advance(self, seconds):
        self.sim.sleep(seconds)
        self.settle()

    # -- inbound bytes ---------------------------------------------------------------
    def feed(self, data, settle=True):
        if isinstance(data, str):
            data = data.encode("utf-8", "surrogateescape")
        ok = self.device.inject(data)
        if settle:
            self.settle()
        return ok

    # -- outbound observation ------------------------------------------------------------
    def written(self, start=0):
        return [w for w in self.device.writes[start:]]

    def written_lines(self, start=0):
        data = b"".join(w[4] for w in self.device.writes[start:])
        return data.decode("utf-8", "replace").split("\n")[:-1]

    # -- teardown -----------------------------------------------------------------------
    def close(self):
        if self.closed:
            return 0
        self.closed = True
        leaked = self.sim.shutdown()
        if self.loop is not None:
            try:
                for task in list(asyncio.all_tasks(self.loop)):
                    coro = task.get_coro()
                    if coro is not None and hasattr(coro, "close"):
                        try:
                            coro.close()  # runs the coroutine's cleanup now, in this (untraced) thread
                        except BaseException:  # pylint: disable=broad-except
                            pass
            except Exception:  # pylint: disable=broad-except
                pass
            try:
                self.loop._ready.clear()
                self.loop._scheduled.clear()
                self.loop._closed = True
            except Exception:  # pylint: disable=broad-except
                pass
        kernel.deactivate()
        simfs.FsHolder.fs = None
        self.gateway = None
        self.gateways = []
        gc.collect()
        return leaked


def projection(sensors):
    """Persisted projection of gateway.sensors (plain data, order-insensitive)."""
    out = {}
    for nid, sensor in sensors.items():
        if not hasattr(sensor, "children") or not hasattr(sensor, "sensor_id"):
            out[nid] = {"not-a-node": type(sensor).__name__}  # whatever the library put there, it is not a node
            continue
        children = {}
        for cid, child in sensor.children.items():
            if not isinstance(getattr(child, "values", None), dict) or not hasattr(child, "type") or not hasattr(child, "description"):
                # (a plain dict has a .values too - a method)
                children[cid] = ("not-a-child", type(child).__name__, {})
                continue
            children[cid] = (child.type if child.type is None else int(child.type),
                             child.description, dict(child.values))
        def attr(name, sensor=sensor):
            try:
                return getattr(sensor, name)
            except AttributeError:
                return "<attribute missing>"  # eg lost in a save / load round trip: reported as a difference, not as a crash

        ntype = attr("type")
        out[nid] = {
            "sensor_id": sensor.sensor_id,
            "type": ntype if ntype is None or isinstance(ntype, str) else int(ntype),
            "sketch_name": attr("sketch_name"),
            "sketch_version": attr("sketch_version"),
            "battery_level": attr("battery_level"),
            "protocol_version": attr("protocol_version"),
            "heartbeat": attr("heartbeat"),
            "children": children,
        }
    return out


def transient(sensors):
    """Smart-sleep and reboot state per node (plain data)."""
    out = {}
    for nid, sensor in sensors.items():
        if not hasattr(sensor, "new_state"):
            out[nid] = {"queue": [], "desired": {}, "reboot": None}
            continue
        desired = {}
        for cid, child in sensor.new_state.items():
            desired[cid] = {k: v for k, v in child.values.items()}
        out[nid] = {"queue": list(sensor.queue), "desired": desired, "reboot": sensor.reboot}
    return out


def ota_state(gateway):
    ota = gateway.tasks.ota
    return {
        "requested": dict(ota.requested),
        "unstarted": dict(ota.unstarted),
        "started": dict(ota.started),
        "firmware": {k: (v["blocks"], v["crc"], len(v["data"])) for k, v in ota.firmware.items()},
    }
