"""Sensitivity self-test (DESIGN.md 4.4): the technique can see what it claims to see.

A table of small seeded mutations of the library, each applied to a scratch copy of the repository's
`mysensors` package under $TMPDIR (outside /repo and /verif, deleted afterwards).  The matching check is run
against that copy (VERIF_REPO) and must report a violation within a bounded number of runs.
Run with ``./check sensitivity``; results go to reports/sensitivity.json.
"""
import json
import os
import shutil
import subprocess
import sys
import tempfile
import time

VERIF = os.path.dirname(os.path.dirname(os.path.abspath(__file__)))
REPO = os.environ.get("VERIF_REPO", "/repo")

# (name, check, runs, file, old, new)
MUTATIONS = [
    ("C01-keyerror-desired-lookup", "C01", 3000, "mysensors/sensor.py",
     "child = self.new_state.get(child_id)", "child = self.new_state[child_id]"),
    ("C01-ota-unguarded-parse", "C01", 1600, "mysensors/ota.py",
     "        except (ValueError, struct.error):\n            _LOGGER.warning(\n                \"Ignoring malformed firmware request",
     "        except (ZeroDivisionError,):\n            _LOGGER.warning(\n                \"Ignoring malformed firmware request"),
    ("C04-child-presentation-overwrites", "C04", 2000, "mysensors/sensor.py",
     "        if child_id in self.children:\n            _LOGGER.warning(", "        if False:\n            _LOGGER.warning("),
    ("C04-battery-no-callback", "C04", 2000, "mysensors/handler.py",
     "    msg.gateway.sensors[msg.node_id].battery_level = msg.payload\n    msg.gateway.alert(msg)",
     "    msg.gateway.sensors[msg.node_id].battery_level = msg.payload"),
    ("C05-config-reply-inverted", "C05", 1000, "mysensors/handler.py",
     'payload="M" if msg.gateway.metric else "I"', 'payload="I" if msg.gateway.metric else "M"'),
    ("C05-time-reply-utc", "C05", 3000, "mysensors/handler.py",
     "calendar.timegm(time.localtime())", "calendar.timegm(time.gmtime())"),
    ("C06-next-id-from-count", "C06", 2000, "mysensors/__init__.py",
     "next_id = max(self.sensors.keys()) + 1", "next_id = len(self.sensors) + 1"),
    ("C06-id-not-persisted", "C06", 2000, "mysensors/__init__.py",
     "            if self.tasks is not None and self.tasks.persistence:\n                self.tasks.persistence.need_save = True",
     "            pass"),
    ("C07-config-reply-not-held", "C07", 2000, "mysensors/__init__.py",
     "            or not self.sensors[msg.node_id].is_smart_sleep_node", "            or not self.sensors[msg.node_id].is_smart_sleep_node\n            or msg.sub_type == 6"),
    ("C08-held-replies-lifo", "C08", 3000, "mysensors/handler.py", "job = sensor.queue.popleft()", "job = sensor.queue.pop()"),
    ("C08-desired-never-confirmed", "C08", 3000, "mysensors/sensor.py",
     "        new_state_child.values[value_type] = None", "        new_state_child.values[value_type] = new_state_child.values.get(value_type)"),
    ("C09-padding-off-by-one", "C09", 200, "mysensors/ota.py", "for _ in range(128 - pads):", "for _ in range(127 - pads):"),
    ("C09-block-slice-shifted", "C09", 200, "mysensors/ota.py",
     "req_blk * FIRMWARE_BLOCK_SIZE : req_blk * FIRMWARE_BLOCK_SIZE\n            + FIRMWARE_BLOCK_SIZE",
     "req_blk * FIRMWARE_BLOCK_SIZE : req_blk * FIRMWARE_BLOCK_SIZE\n            + FIRMWARE_BLOCK_SIZE - (1 if req_blk == 7 else 0)"),
    ("C10-config-repeated-while-fetching", "C10", 2000, "mysensors/ota.py",
     "self._get_fw(msg, (self.requested, self.unstarted))", "self._get_fw(msg, (self.requested, self.unstarted, self.started))"),
    ("C10-reboot-flag-never-cleared", "C10", 2000, "mysensors/handler.py",
     "        msg.gateway.sensors[msg.node_id].reboot = False\n", "        pass\n"),
    ("C11-json-keys-stay-strings", "C11", 600, "mysensors/persistence.py",
     "            return {int(k): v for k, v in obj.items()}", "            return dict(obj)"),
    ("C11-reboot-survives-pickle", "C11", 1500, "mysensors/sensor.py",
     "        self.queue = deque()\n        self.reboot = False\n        if \"_heartbeat\"", "        self.queue = deque()\n        if \"_heartbeat\""),
    ("C12-no-fsync", "C12", 4000, "mysensors/persistence.py", "            os.fsync(file_handle.fileno())", "            pass"),
    ("C12-renames-swapped", "C12", 4000, "mysensors/persistence.py",
     "            if exists:\n                os.rename(fname, self.persistence_bak)\n            os.rename(tmp_fname, fname)",
     "            if exists:\n                os.remove(fname)\n            os.rename(tmp_fname, fname)\n            exists = False"),
    ("C13-unpickling-error-not-caught", "C13", 1000, "mysensors/persistence.py",
     "except (EOFError, ValueError, pickle.UnpicklingError):", "except (EOFError, ValueError):"),
    ("C14-sketch-name-not-dirty", "C14", 3000, "mysensors/handler.py",
     "    msg.gateway.sensors[msg.node_id].sketch_name = msg.payload\n    msg.gateway.alert(msg)",
     "    msg.gateway.sensors[msg.node_id].sketch_name = msg.payload\n    if msg.gateway.event_callback is not None:\n        msg.gateway.event_callback(msg)"),
    ("C15-flag-not-restored-on-failure", "C15", 1200, "mysensors/persistence.py",
     "        except Exception:\n            self.need_save = True\n            raise", "        except Exception:\n            raise"),
    ("C15-timer-chain-dies", "C15", 600, "mysensors/task.py",
     "            try:\n                save_sensors()\n            except Exception as exc:  # pylint: disable=broad-except",
     "            try:\n                save_sensors()\n            except KeyError as exc:  # pylint: disable=broad-except"),
    ("C16-check-then-use", "C16", 3500, "mysensors/transport.py",
     "            transport.write(message.encode())", "            self.protocol.transport.write(message.encode())"),
    ("C17-prefix-by-search", "C17", 2500, "mysensors/gateway_mqtt.py",
     "        if not topic.startswith(prefix):\n            return None\n        topic_levels = topic[len(prefix) :].split(\"/\")",
     "        if prefix[:-1] not in topic:\n            return None\n        topic_levels = topic.split(\"/\")[-5:]"),
    ("C17-stream-topic-not-subscribed", "C17", 1500, "mysensors/gateway_mqtt.py",
     '        topics.append(f"/{msg.node_id}/+/{int(self.const.MessageType.stream)}/+/+")\n', "        pass\n"),
    ("C18-version-floor-ge", "C18", 2500, "mysensors/const.py",
     "if not AwesomeVersion(protocol_version) < AwesomeVersion(const_version)", "if AwesomeVersion(protocol_version) >= AwesomeVersion(const_version)"),
    ("C18-timeout-ignored", "C18", 1000, "mysensors/gateway_serial.py",
     "            sync_connect,\n            timeout=timeout,", "            sync_connect,\n            timeout=1.0,"),
    ("C19-follow-ups-behind-queue", "C19", 600, "mysensors/task.py",
     "            follow_up_jobs.append((func, args))\n            return", "            pass"),
    ("C20-watchdog-three-times", "C20", 1600, "mysensors/gateway_tcp.py",
     "self.tcp_disconnect_timer + 2 * self.tasks.transport.reconnect_timeout", "self.tcp_disconnect_timer + 3 * self.tasks.transport.reconnect_timeout"),
    ("C20-made-callback-twice", "C20", 400, "mysensors/transport.py",
     "            self.gateway.on_conn_made(self.gateway)", "            self.gateway.on_conn_made(self.gateway)\n            self.gateway.on_conn_made(self.gateway)"),
    ("C20-no-retry-after-timeout", "C20", 1600, "mysensors/gateway_tcp.py",
     "        except socket.timeout:\n            _LOGGER.error(", "        except socket.timeout:\n            return\n            _LOGGER.error("),
]


def main(args):
    t0 = time.time()
    only = getattr(args, "only", None)
    results = []
    failures = 0
    base = tempfile.mkdtemp(prefix="verif_sens_")
    try:
        for name, check, runs, rel, old, new in MUTATIONS:
            if only and only not in name:
                continue
            scratch = os.path.join(base, name)
            os.makedirs(scratch)
            shutil.copytree(os.path.join(REPO, "mysensors"), os.path.join(scratch, "mysensors"),
                            ignore=shutil.ignore_patterns("__pycache__"))
            path = os.path.join(scratch, rel)
            with open(path, encoding="utf-8") as fh:
                text = fh.read()
            if old not in text:
                results.append({"mutation": name, "check": check, "status": "PATTERN-NOT-FOUND"})
                print(f"sensitivity {name}: PATTERN-NOT-FOUND (the library changed; update the table)")
                failures += 1
                shutil.rmtree(scratch)
                continue
            with open(path, "w", encoding="utf-8") as fh:
                fh.write(text.replace(old, new, 1))
            env = dict(os.environ, VERIF_REPO=scratch, VERIF_NO_EVIDENCE="1", VERIF_REPLAY_DIR=os.path.join(scratch, "replays"))
            t1 = time.time()
            out = subprocess.run([os.path.join(VERIF, "check"), check, "--tier", "quick", "--runs", str(runs)], cwd=VERIF, env=env,
                                 capture_output=True, text=True, timeout=1800, check=False)
            detected = out.returncode == 1 and "VIOLATION property=" in out.stdout
            line = [l for l in out.stdout.splitlines() if l.startswith("violation class=")]
            results.append({"mutation": name, "check": check, "file": rel, "detected": detected, "rc": out.returncode,
                            "wall_s": round(time.time() - t1, 1), "first": (line[0][:200] if line else out.stdout[-300:])})
            print(f"sensitivity {name}: {'detected' if detected else 'MISSED'} by {check} in {time.time() - t1:.1f}s  {line[0][:110] if line else ''}")
            if not detected:
                failures += 1
            shutil.rmtree(scratch)
    finally:
        shutil.rmtree(base, ignore_errors=True)
    doc = {"mutations": len(results), "detected": sum(1 for r in results if r.get("detected")), "results": results,
           "wall_s": round(time.time() - t0, 1)}
    if not only:
        os.makedirs(os.path.join(VERIF, "reports"), exist_ok=True)
        with open(os.path.join(VERIF, "reports", "sensitivity.json"), "w", encoding="utf-8") as fh:
            json.dump(doc, fh, indent=1)
    print(f"sensitivity: {doc['detected']}/{doc['mutations']} detected wall={doc['wall_s']}s")
    return 1 if failures else 0


if __name__ == "__main__":
    sys.exit(main(None))
