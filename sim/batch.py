"""Batch driver: seeded search, replay, minimisation, known findings, evidence.

A *check* (one module per property under /verif/checks) provides

    ID, LEVEL, RULE, TIERS = {"quick": {...}, "thorough": {...}}
    gen(rng, tier, index) -> case          (JSON-serialisable dict)
    run(case)            -> result dict    (see RESULT KEYS below)

and optionally ``shrinkers(case)`` yielding simpler candidate cases.

RESULT KEYS: violations [ {class, detail, signature{...}} ], digest, nontrivial
(bool), key (str; distinctness of non-trivial runs), probes {name:int}, faults
{name:int}, steps, sim_seconds, incomplete (None|reason), interleaving (str|
None), states [str], sample (JSON-able description of the run), sched (the
recorded schedule decisions of a pre-emptive run, for replay/minimisation).
"""
import concurrent.futures as cf
import copy
import faulthandler
import hashlib
import importlib
import json
import multiprocessing
import os
import random
import subprocess
import sys
import time
import traceback

VERIF = os.path.dirname(os.path.dirname(os.path.abspath(__file__)))
DEFAULT_SEED = 20260927
RUN_TIMEOUT = 120  # wall seconds for one simulated run before the worker is killed


def derive_seed(base, prop, index):
    h = hashlib.sha256(f"{base}:{prop}:{index}".encode()).digest()
    return int.from_bytes(h[:8], "big") >> 1


def load_check(prop):
    return importlib.import_module(f"checks.{prop}")


def load_known():
    path = os.path.join(VERIF, "known_findings.json")
    if not os.path.exists(path):
        return []
    with open(path, encoding="utf-8") as fh:
        return json.load(fh).get("findings", [])


def match_known(prop, violation, known):
    """A violation is known iff an *open* finding of this property has a signature
    that is a sub-dict of the violation's signature (class + call site / shape)."""
    sig = dict(violation.get("signature") or {})
    sig.setdefault("class", violation.get("class"))
    for item in known:
        if item.get("property") != prop or item.get("status") != "open":
            continue
        want = item.get("signature") or {}
        if want and all(sig.get(k) == v for k, v in want.items()):
            return item
    return None


def run_one(check, case):
    """Run one case with the per-run watchdog; exceptions are harness errors."""
    faulthandler.dump_traceback_later(RUN_TIMEOUT, exit=True)
    try:
        return check.run(case)
    finally:
        faulthandler.cancel_dump_traceback_later()


def _worker(args):
    prop, tier, base_seed, start, count, known, budget_deadline = args
    check = load_check(prop)
    agg = new_agg()
    for index in range(start, start + count):
        if budget_deadline and time.time() > budget_deadline:
            agg["stopped_early"] = True
            break
        seed = derive_seed(base_seed, prop, index)
        rng = random.Random(seed)
        case = check.gen(rng, tier, index)
        case.setdefault("property", prop)
        case["seed"] = seed
        case["index"] = index
        try:
            res = run_one(check, case)
        except Exception:  # pylint: disable=broad-except
            agg["harness_errors"].append({"seed": seed, "index": index, "trace": traceback.format_exc()[-3000:]})
            break
        merge(agg, res, case, prop, known)
        if agg["new_violation"] is not None:
            break
    return agg


def new_agg():
    return {"evaluations": 0, "nontrivial_keys": set(), "probes": {}, "faults": {}, "steps": 0,
            "sim_seconds": 0.0, "incomplete": 0, "interleavings": set(), "states": set(),
            "samples": [], "known_seen": {}, "new_violation": None, "harness_errors": [],
            "first_seed": None, "last_seed": None, "stopped_early": False, "violations": 0,
            "extra": {}}


def merge(agg, res, case, prop, known):
    agg["evaluations"] += 1
    if agg["first_seed"] is None:
        agg["first_seed"] = case.get("seed")
    agg["last_seed"] = case.get("seed")
    if res.get("incomplete"):
        agg["incomplete"] += 1
    if res.get("nontrivial") and not res.get("incomplete"):
        agg["nontrivial_keys"].add(str(res.get("key") or res.get("digest")))
    for name, val in (res.get("probes") or {}).items():
        agg["probes"][name] = agg["probes"].get(name, 0) + int(val)
    for name, val in (res.get("faults") or {}).items():
        agg["faults"][name] = agg["faults"].get(name, 0) + int(val)
    for name, val in (res.get("extra") or {}).items():
        if isinstance(val, (list, set, tuple)):
            agg["extra"].setdefault(name, set()).update(val)
        else:
            agg["extra"][name] = agg["extra"].get(name, 0) + val
    agg["steps"] += int(res.get("steps") or 0)
    agg["sim_seconds"] += float(res.get("sim_seconds") or 0.0)
    if res.get("interleaving"):
        agg["interleavings"].add(res["interleaving"])
    for st in res.get("states") or ():
        agg["states"].add(st)
    if res.get("sample") is not None and len(agg["samples"]) < 3 and res.get("nontrivial"):
        agg["samples"].append(res["sample"])
    for vio in res.get("violations") or ():
        item = match_known(prop, vio, known)
        if item is not None:
            ent = agg["known_seen"].setdefault(item["id"], {"count": 0, "what": item.get("what", ""), "example_seed": case.get("seed")})
            ent["count"] += 1
            continue
        agg["violations"] += 1
        if agg["new_violation"] is None:
            agg["new_violation"] = {"case": case, "violation": vio, "digest": res.get("digest"),
                                    "sched": res.get("sched")}


def merge_aggs(total, part):
    total["evaluations"] += part["evaluations"]
    total["nontrivial_keys"] |= part["nontrivial_keys"]
    for key in ("probes", "faults"):
        for name, val in part[key].items():
            total[key][name] = total[key].get(name, 0) + val
    for name, val in part["extra"].items():
        if isinstance(val, set):
            total["extra"].setdefault(name, set()).update(val)
        else:
            total["extra"][name] = total["extra"].get(name, 0) + val
    total["steps"] += part["steps"]
    total["sim_seconds"] += part["sim_seconds"]
    total["incomplete"] += part["incomplete"]
    total["interleavings"] |= part["interleavings"]
    total["states"] |= part["states"]
    for smp in part["samples"]:
        if len(total["samples"]) < 3:
            total["samples"].append(smp)
    for kid, ent in part["known_seen"].items():
        cur = total["known_seen"].setdefault(kid, {"count": 0, "what": ent["what"], "example_seed": ent["example_seed"]})
        cur["count"] += ent["count"]
    total["violations"] += part["violations"]
    if total["new_violation"] is None and part["new_violation"] is not None:
        total["new_violation"] = part["new_violation"]
    total["harness_errors"].extend(part["harness_errors"])
    if total["first_seed"] is None:
        total["first_seed"] = part["first_seed"]
    if part["last_seed"] is not None:
        total["last_seed"] = part["last_seed"]
    total["stopped_early"] = total["stopped_early"] or part["stopped_early"]


# ---------------------------------------------------------------------------
# minimisation
# ---------------------------------------------------------------------------
def _fails_same(check, case, vclass, prop, known):
    try:
        res = run_one(check, case)
    except Exception:  # pylint: disable=broad-except
        return None
    for vio in res.get("violations") or ():
        if vio.get("class") == vclass and match_known(prop, vio, known) is None:
            return res
    return None


def minimise(check, case, violation, prop, known, budget_s):
    """ddmin over case['ops'] (+ check specific shrinkers) keeping the violation class."""
    deadline = time.time() + budget_s
    vclass = violation.get("class")
    best = copy.deepcopy(case)
    best_res = None
    tried = 0

    def attempt(cand):
        nonlocal best, best_res, tried
        if time.time() > deadline:
            return False
        tried += 1
        res = _fails_same(check, cand, vclass, prop, known)
        if res is not None:
            best, best_res = cand, res
            return True
        return False

    # 1. freeze the schedule if the run was pre-emptive, so op removal does not
    #    change which decisions are taken more than necessary
    ops = best.get("ops")
    if isinstance(ops, list) and len(ops) > 1:
        chunk = max(1, len(ops) // 2)
        while chunk >= 1 and time.time() < deadline:
            i = 0
            progressed = False
            while i < len(best["ops"]) and time.time() < deadline:
                cand = copy.deepcopy(best)
                del cand["ops"][i:i + chunk]
                if cand["ops"] != best["ops"] and attempt(cand):
                    progressed = True
                else:
                    i += chunk
            if chunk == 1 and not progressed:
                break
            chunk = chunk // 2 if chunk > 1 else (1 if progressed else 0)
    # 2. check specific simplifications
    shr = getattr(check, "shrinkers", None)
    if shr is not None:
        progress = True
        while progress and time.time() < deadline:
            progress = False
            for cand in shr(copy.deepcopy(best)):
                if time.time() > deadline:
                    break
                if attempt(cand):
                    progress = True
                    break
    # 3. schedule simplification: replace the seeded policy by the recorded decisions (policy
    #    "forced"), then drop pre-emptions and non-default picks one at a time while the same
    #    violation class persists
    def sched_of(case_):
        cfg_ = case_.get("cfg") if isinstance(case_.get("cfg"), dict) else None
        if cfg_ is not None and isinstance(cfg_.get("sched"), dict):
            return cfg_["sched"], cfg_
        if isinstance(case_.get("sched"), dict):
            return case_["sched"], case_
        return None, None

    res = best_res or _fails_same(check, best, vclass, prop, known)
    cur, _holder = sched_of(best)
    if res is not None and res.get("sched") and cur is not None and cur.get("policy") not in (None, "serial", "forced"):
        forced = copy.deepcopy(best)
        _s, holder = sched_of(forced)
        holder["sched"] = dict(res["sched"])
        if attempt(forced):
            for field in ("pre", "choices"):
                sched_now, _h = sched_of(best)
                items = list(sched_now.get(field) or ([] if field == "pre" else {}))
                # halves first, then single decisions
                half = len(items) // 2
                groups = ([items[:half], items[half:]] if half > 1 else []) + [[it] for it in items]
                for group in groups:
                    if time.time() > deadline:
                        break
                    cand = copy.deepcopy(best)
                    csched, _h = sched_of(cand)
                    if field == "pre":
                        csched["pre"] = [x for x in csched.get("pre", []) if x not in group]
                    else:
                        for it in group:
                            csched.get("choices", {}).pop(it, None)
                    if csched != sched_of(best)[0]:
                        attempt(cand)
    return best, tried


# ---------------------------------------------------------------------------
# top level
# ---------------------------------------------------------------------------
def write_replay(prop, case, violation, digest, tree):
    rdir = os.environ.get("VERIF_REPLAY_DIR") or os.path.join(VERIF, "replays")
    os.makedirs(rdir, exist_ok=True)
    path = os.path.join(rdir, f"{prop}-{case.get('seed', 0)}.json")
    with open(path, "w", encoding="utf-8") as fh:
        json.dump({"property": prop, "seed": case.get("seed"), "tree": tree, "case": case,
                   "violation": violation, "digest": digest}, fh, indent=1, sort_keys=True, default=str)
    return path


def replay_file(path, quiet=False):
    """Re-execute a replay file in this process.  Returns (status, detail)."""
    with open(path, encoding="utf-8") as fh:
        data = json.load(fh)
    prop = data["property"]
    check = load_check(prop)
    res = run_one(check, data["case"])
    want = data["violation"].get("class")
    got = [v for v in res.get("violations") or () if v.get("class") == want]
    if not got:
        return "NOT-REPRODUCED", {"violations": res.get("violations"), "digest": res.get("digest")}
    if data.get("digest") and res.get("digest") != data["digest"]:
        return "REPLAY-DIVERGED", {"want": data["digest"], "got": res.get("digest")}
    return "REPRODUCED", {"violation": got[0], "digest": res.get("digest")}


def replay_in_fresh_process(path):
    env = dict(os.environ, PYTHONHASHSEED="0")
    out = subprocess.run([os.path.join(VERIF, "check"), "--replay", path],
                         capture_output=True, text=True, env=env, timeout=600, check=False)
    return out.returncode, out.stdout + out.stderr


def run_check(prop, tier="quick", base_seed=None, workers=None, runs=None):
    check = load_check(prop)
    from . import world  # pylint: disable=import-outside-toplevel
    world.install()
    t0 = time.time()
    if base_seed is None:
        base_seed = int(os.environ.get("VERIF_SEED", DEFAULT_SEED))
    conf = dict(check.TIERS[tier])
    n_runs = int(runs or conf["runs"])
    max_wall = float(conf.get("max_wall", 600))
    workers = workers or int(os.environ.get("VERIF_WORKERS", min(16, os.cpu_count() or 1)))
    known = load_known()
    chunk = max(1, min(int(conf.get("chunk", 50)), (n_runs + workers - 1) // workers))
    tasks = []
    deadline = t0 + max_wall
    for start in range(0, n_runs, chunk):
        tasks.append((prop, tier, base_seed, start, min(chunk, n_runs - start), known, deadline))
    total = new_agg()
    broken = None
    if workers <= 1:
        for task in tasks:
            part = _worker(task)
            merge_aggs(total, part)
            if total["new_violation"] is not None or total["harness_errors"]:
                break
    else:
        ctx = multiprocessing.get_context("fork")
        with cf.ProcessPoolExecutor(max_workers=workers, mp_context=ctx) as pool:
            futs = [pool.submit(_worker, task) for task in tasks]
            try:
                for fut in cf.as_completed(futs):
                    part = fut.result()
                    merge_aggs(total, part)
                    if total["new_violation"] is not None or total["harness_errors"]:
                        for other in futs:
                            other.cancel()
                        break
            except cf.process.BrokenProcessPool as exc:
                broken = f"worker died (hang > {RUN_TIMEOUT}s or crash): {exc}"
            if total["new_violation"] is not None or total["harness_errors"] or broken:
                pool.shutdown(wait=False, cancel_futures=True)
    wall_search = time.time() - t0
    tree = world.tree_hash()
    replay_path = None
    vio = total["new_violation"]
    status = 0
    if broken or total["harness_errors"]:
        status = 2
    if vio is not None:
        status = 1
        case, violation = vio["case"], vio["violation"]
        budget = float(conf.get("minimise_s", 20))
        try:
            small, tried = minimise(check, case, violation, prop, known, budget)
            res = run_one(check, small)
            same = [v for v in res.get("violations") or () if v.get("class") == violation.get("class")]
            if same:
                case, violation, vdigest = small, same[0], res.get("digest")
            else:
                vdigest = vio["digest"]
        except Exception:  # pylint: disable=broad-except
            vdigest = vio["digest"]
            tried = -1
        replay_path = write_replay(prop, case, violation, vdigest, tree)
        code, out = replay_in_fresh_process(replay_path)
        confirmed = "REPRODUCED" in out
        print(f"violation class={violation.get('class')} seed={case.get('seed')} "
              f"ops={len(case.get('ops') or [])} minimise_tries={tried} fresh_replay={'ok' if confirmed else 'FAILED: ' + out[-400:]}")
        print(f"detail: {json.dumps(violation, default=str)[:1500]}")
        if not confirmed:
            status = 2
            print(f"HARNESS-ERROR property={prop} replay of {replay_path} did not reproduce in a fresh process")
        else:
            print(f"VIOLATION property={prop} replay={replay_path}")
    for kid, ent in sorted(total["known_seen"].items()):
        print(f"KNOWN-FINDING: property={prop} {kid} {ent['what']} (seen {ent['count']}x, e.g. seed {ent['example_seed']})")
    for err in total["harness_errors"][:3]:
        print(f"HARNESS-ERROR property={prop} seed={err['seed']}\n{err['trace']}")
    if broken:
        print(f"HARNESS-ERROR property={prop} {broken}")
    wall = time.time() - t0
    if not os.environ.get("VERIF_NO_EVIDENCE"):
        write_evidence(check, prop, tier, base_seed, total, wall, wall_search, tree, workers, n_runs, replay_path)
    nontriv = len(total["nontrivial_keys"])
    print(f"{prop} tier={tier} runs={total['evaluations']}/{n_runs} nontrivial_distinct={nontriv} "
          f"incomplete={total['incomplete']} violations={total['violations']} known={sum(e['count'] for e in total['known_seen'].values())} "
          f"wall={wall:.1f}s status={status}")
    gaps = [p for p in getattr(check, "REQUIRED_PROBES", ()) if not total["probes"].get(p)]
    if gaps:
        print(f"COVERAGE-GAP property={prop} probes at zero: {', '.join(gaps)}")
    return status


def write_evidence(check, prop, tier, base_seed, total, wall, wall_search, tree, workers, n_runs, replay_path):
    from . import world  # pylint: disable=import-outside-toplevel
    evals = total["evaluations"]
    cov = {
        "evaluations": evals,
        "distinct_nontrivial": len(total["nontrivial_keys"]),
        "rule": check.RULE,
        "samples": total["samples"] or [],
        "runs_requested": n_runs,
        "runs_per_hour": int(evals / wall_search * 3600) if wall_search > 0 else 0,
        "seeds": {"base": base_seed, "derivation": "sha256(base:property:index)>>1", "first": total["first_seed"], "last": total["last_seed"]},
        "simulated_seconds": round(total["sim_seconds"], 3),
        "steps": total["steps"],
        "faults_fired": dict(sorted(total["faults"].items())),
        "faults_configured": list(getattr(check, "FAULT_KINDS", [])),
        "probes": dict(sorted(total["probes"].items())),
        "distinct_interleavings": len(total["interleavings"]),
        "distinct_states": len(total["states"]),
        "incomplete_runs": total["incomplete"],
        "stopped_early": total["stopped_early"],
        "real_components": list(getattr(check, "REAL", [])),
        "stubbed_components": list(getattr(check, "STUBS", [])),
        "tree_hash": tree,
        "tree": world.tree_describe(),
        "mysensors_file": world.mysensors.__file__,
        "workers": workers,
        "known_findings_seen": {k: v["count"] for k, v in total["known_seen"].items()},
        "harness_errors": len(total["harness_errors"]),
    }
    for name, val in total["extra"].items():
        cov[name] = sorted(val) if isinstance(val, set) else val
    post = getattr(check, "coverage_post", None)
    if post is not None:
        post(cov)
    if replay_path:
        cov["replay"] = replay_path
    doc = {
        "property_id": prop,
        "tier": tier,
        "seed": int(base_seed),
        "level": check.LEVEL,
        "coverage": cov,
        "assumptions": list(getattr(check, "ASSUMPTIONS", [])),
        "wall_s": round(wall, 2),
        "violations": total["violations"],
    }
    os.makedirs(os.path.join(VERIF, "evidence"), exist_ok=True)
    path = os.path.join(VERIF, "evidence", f"{prop}.json")
    with open(path, "w", encoding="utf-8") as fh:
        json.dump(doc, fh, indent=1, sort_keys=True, default=str)
    return path
