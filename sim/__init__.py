"""Deterministic simulator for pymysensors (see /verif/DESIGN.md section 2)."""
