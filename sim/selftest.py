"""Self-tests of the machinery (DESIGN.md 4.4): determinism, replay of fixed findings.

``./check selftest --tier quick`` is MANIFEST.setup_cmd: it proves on a sample
that one seed is one execution (same digest twice in one process, in a fresh
interpreter, and under another PYTHONHASHSEED) and that every finding recorded
as fixed stays fixed.  The thorough tier widens the sample and adds pool runs.
"""
import glob
import json
import os
import random
import subprocess
import sys
import time

VERIF = os.path.dirname(os.path.dirname(os.path.abspath(__file__)))


def _digests(props, indices, base):
    from . import batch, world  # pylint: disable=import-outside-toplevel
    world.install()
    out = {}
    for prop in props:
        check = batch.load_check(prop)
        for index in indices:
            seed = batch.derive_seed(base, prop, index)
            case = check.gen(random.Random(seed), "quick", index)
            case["seed"] = seed
            res = batch.run_one(check, case)
            out[f"{prop}:{index}"] = res["digest"] + ":" + str(res.get("steps"))
        if prop in ("C01", "C16"):
            # the rarer fault kinds must be in the sample too: the first cases of this check that inject stalled threads
            found, index = 0, 1000
            while found < 3 and index < 1400:
                seed = batch.derive_seed(base, prop, index)
                case = check.gen(random.Random(seed), "quick", index)
                if ((case.get("cfg") or {}).get("sched") or {}).get("stall"):
                    case["seed"] = seed
                    res = batch.run_one(check, case)
                    out[f"{prop}:stall:{index}"] = res["digest"] + ":" + str(res.get("steps"))
                    found += 1
                index += 1
    return out


def _child(props, indices, base, hashseed):
    code = ("import sys, json; sys.path.insert(0, %r); from sim import selftest; "
            "print(json.dumps(selftest._digests(%r, %r, %r)))" % (VERIF, props, indices, base))
    env = dict(os.environ, PYTHONHASHSEED=str(hashseed), PYTHONDONTWRITEBYTECODE="1")
    out = subprocess.run([sys.executable, "-c", code], capture_output=True, text=True, env=env, timeout=900, check=False)
    if out.returncode != 0:
        raise RuntimeError(out.stderr[-2000:])
    return json.loads(out.stdout.strip().splitlines()[-1])


def available_checks():
    names = []
    for path in sorted(glob.glob(os.path.join(VERIF, "checks", "C[0-9][0-9].py"))):
        names.append(os.path.basename(path)[:-3])
    return names


def main(args):
    t0 = time.time()
    tier = args.tier
    props = available_checks()
    n = 6 if tier == "quick" else 60
    indices = list(range(n))
    base = args.seed if args.seed is not None else 7
    failures = []
    first = _digests(props, indices, base)
    second = _digests(props, indices, base)
    for key, val in first.items():
        if second[key] != val:
            failures.append(f"same-process divergence {key}: {val} vs {second[key]}")
    for hashseed in ((0, 12345) if tier == "quick" else (0, 1, 12345, 99)):
        fresh = _child(props, indices, base, hashseed)
        for key, val in first.items():
            if fresh[key] != val:
                failures.append(f"fresh-interpreter (PYTHONHASHSEED={hashseed}) divergence {key}: {val} vs {fresh[key]}")
    if tier == "thorough":
        # same seeds inside a 16-worker fork pool: scheduling of *processes* must not matter either
        import concurrent.futures as cf  # pylint: disable=import-outside-toplevel
        import multiprocessing  # pylint: disable=import-outside-toplevel
        ctx = multiprocessing.get_context("fork")
        with cf.ProcessPoolExecutor(max_workers=16, mp_context=ctx) as pool:
            futs = {prop: pool.submit(_digests, [prop], indices, base) for prop in props}
            for prop, fut in futs.items():
                for key, val in fut.result().items():
                    if first[key] != val:
                        failures.append(f"pool-worker divergence {key}: {first[key]} vs {val}")
    distinct = len(set(first.values()))
    # fixed findings must stay fixed
    from . import batch  # pylint: disable=import-outside-toplevel
    known_path = os.path.join(VERIF, "known_findings.json")
    fixed_checked = 0
    if os.path.exists(known_path):
        with open(known_path, encoding="utf-8") as fh:
            for item in json.load(fh).get("findings", []):
                path = item.get("example_replay")
                if item.get("status") == "fixed" and path:
                    status, detail = batch.replay_file(os.path.join(VERIF, path))
                    fixed_checked += 1
                    if status != "NOT-REPRODUCED":
                        failures.append(f"fixed finding {item['id']} reproduces again: {status} {json.dumps(detail, default=str)[:300]}")
    wall = time.time() - t0
    doc = {"tier": tier, "checks": props, "seeds_per_check": n, "runs_compared": len(first), "distinct_digests": distinct,
           "hash_seeds": [0, 12345] if tier == "quick" else [0, 1, 12345, 99], "fixed_findings_replayed": fixed_checked,
           "failures": failures, "wall_s": round(wall, 1)}
    os.makedirs(os.path.join(VERIF, "reports"), exist_ok=True)
    with open(os.path.join(VERIF, "reports", "selftest.json"), "w", encoding="utf-8") as fh:
        json.dump(doc, fh, indent=1)
    for line in failures:
        print("SELFTEST-FAIL", line)
    print(f"selftest tier={tier} checks={len(props)} runs={len(first)} distinct={distinct} fixed_replayed={fixed_checked} "
          f"failures={len(failures)} wall={wall:.1f}s")
    return 1 if failures else 0
