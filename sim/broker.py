"""SimBroker: the MQTT broker + client library seen through pub/sub callbacks."""


def topic_matches(sub, topic):
    """MQTT wildcard matching ('+' one level, '#' rest)."""
    s_levels = sub.split("/")
    t_levels = topic.split("/")
    for i, lev in enumerate(s_levels):
        if lev == "#":
            return True
        if i >= len(t_levels):
            return False
        if lev == "+":
            continue
        if lev != t_levels[i]:
            return False
    return len(s_levels) == len(t_levels)


class SimBroker:
    def __init__(self, in_prefix="", out_prefix="", pub_raise=(), sub_raise=()):
        self.in_prefix = in_prefix
        self.out_prefix = out_prefix
        self.world = None
        self.subs = []  # (topic, qos, callback)
        self.sub_calls = 0
        self.pub_calls = 0
        self.published = []  # (t, topic, payload, qos, retain)
        self.pub_raise = set(pub_raise)  # call indices at which publish raises
        self.sub_raise = set(sub_raise)
        self.raised = {"pub": 0, "sub": 0}
        self.delivered = 0
        self.undelivered = 0
        self.recv_errors = []

    def bind(self, world):
        self.world = world

    def pending(self):
        return False

    # callbacks handed to the gateway ---------------------------------------------
    def subscribe(self, topic, callback, qos):
        idx = self.sub_calls
        self.sub_calls += 1
        if idx in self.sub_raise:
            self.raised["sub"] += 1
            if self.world is not None:
                self.world.sim.count("fault_sub_raise")
            raise RuntimeError(f"simulated subscribe failure #{idx}")
        if isinstance(qos, bool) or not isinstance(qos, int) or not 0 <= qos <= 2:
            # what a real client library (paho) does with a QoS MQTT does not have
            self.raised["sub_qos"] = self.raised.get("sub_qos", 0) + 1
            raise ValueError(f"Invalid QoS level: {qos!r}")
        self.subs.append((topic, qos, callback))
        if self.world is not None:
            self.world.sim.ev("subscribe", topic, qos)

    def publish(self, topic, payload, qos, retain):
        idx = self.pub_calls
        self.pub_calls += 1
        now = self.world.sim.now if self.world is not None else 0.0
        # the attempt is logged even when the client library then fails: the
        # gateway did emit the command, the broker side lost it
        self.published.append((now, topic, payload, qos, retain))
        if idx in self.pub_raise:
            self.raised["pub"] += 1
            if self.world is not None:
                self.world.sim.count("fault_pub_raise")
            raise RuntimeError(f"simulated publish failure #{idx}")
        if self.world is not None:
            self.world.sim.ev("publish", topic, payload, qos, retain)

    # broker side -----------------------------------------------------------------
    def subscribed(self, topic):
        return any(topic_matches(s[0], topic) for s in self.subs)

    def callback_for(self, topic):
        for sub, _qos, callback in self.subs:
            if topic_matches(sub, topic):
                return callback
        return None

    def deliver(self, topic, payload, qos, force=False):
        """Deliver a message if a subscription matches (or force=True)."""
        callback = self.callback_for(topic)
        if callback is None and force and self.subs:
            callback = self.subs[0][2]
        if callback is None:
            self.undelivered += 1
            return False
        self.delivered += 1
        world = self.world
        from . import world as W  # pylint: disable=import-outside-toplevel
        try:
            if W.is_async(world.flavour):
                world.on_loop(lambda: callback(topic, payload, qos))
            else:
                callback(topic, payload, qos)
        except Exception as exc:  # pylint: disable=broad-except
            # the MQTT client library's thread would get this exception
            import traceback  # pylint: disable=import-outside-toplevel
            self.recv_errors.append((topic, repr(exc), traceback.format_exc()))
        return True

    def out_lines(self, start=0):
        """Published messages as command lines (model's own mapping: split levels)."""
        lines = []
        for _t, topic, payload, qos, _retain in self.published[start:]:
            lines.append(self.topic_to_line(topic, payload, qos))
        return lines

    def topic_to_line(self, topic, payload, qos):
        pre = self.out_prefix
        if not topic.startswith(pre + "/"):
            return f"!badprefix:{topic}:{payload}"
        levels = topic[len(pre) + 1:].split("/")
        if len(levels) != 5:
            return f"!badlevels:{topic}:{payload}"
        return ";".join(levels) + ";" + str(payload)
