"""Command line of the verification machinery (see /verif/check)."""
import argparse
import json
import os
import sys

VERIF = os.path.dirname(os.path.dirname(os.path.abspath(__file__)))
if VERIF not in sys.path:
    sys.path.insert(0, VERIF)


def main(argv=None):
    parser = argparse.ArgumentParser()
    parser.add_argument("target", nargs="?")
    parser.add_argument("--tier", default=os.environ.get("VERIF_TIER", "quick"), choices=["quick", "thorough"])
    parser.add_argument("--seed", type=int, default=None)
    parser.add_argument("--runs", type=int, default=None)
    parser.add_argument("--workers", type=int, default=None)
    parser.add_argument("--replay", default=None)
    parser.add_argument("--only", default=None, help="sensitivity: substring filter on mutation names")
    args = parser.parse_args(argv)
    from sim import batch  # pylint: disable=import-outside-toplevel

    if args.replay:
        status, detail = batch.replay_file(args.replay)
        print(status, json.dumps(detail, default=str)[:3000])
        return {"REPRODUCED": 1, "NOT-REPRODUCED": 0}.get(status, 2)
    if args.target == "sensitivity":
        from sim import sensitivity  # pylint: disable=import-outside-toplevel
        return sensitivity.main(args)
    if args.target == "selftest":
        from sim import selftest  # pylint: disable=import-outside-toplevel
        return selftest.main(args)
    if not args.target:
        parser.error("target required")
    return batch.run_check(args.target, tier=args.tier, base_seed=args.seed, workers=args.workers, runs=args.runs)


if __name__ == "__main__":
    sys.exit(main())
