"""Simulation kernel: one clock, one decision source, one running thread.

Real ``threading.Thread`` objects are used (the library subclasses Thread) but
only the holder of the baton executes.  Every blocking primitive the library
uses is a shim that parks the calling thread and hands the baton on; optional
``sys.settrace`` line events inside an allow-list of files are additional
pre-emption points.  All scheduling choices come from ``Sim.choose`` /
``Sim._want_preempt`` which are driven either by one PRNG (seed in the case
file) or by a recorded decision list (replay / minimisation).

Nothing in here reads a real clock or draws randomness outside the PRNG.
"""
import hashlib
import heapq
import random
import sys
import threading as _rt
import time as _real_time
import traceback

CURRENT = None  # the active Sim of this process (one at a time)

READY, RUNNING, BLOCKED, IDLEWAIT, DONE = "ready", "running", "blocked", "idlewait", "done"

_ORIG_START = _rt.Thread.start
_ORIG_JOIN = _rt.Thread.join
_ORIG_IS_ALIVE = _rt.Thread.is_alive


class SimKilled(BaseException):
    """Raised inside parked threads when the run is torn down."""


class SimAbort(Exception):
    """Raised in the driver when a cap (steps / time) is hit: run INCOMPLETE."""


class Deadlock(Exception):
    """No runnable thread, no pending timer, workload not finished."""


class ThreadRec:
    __slots__ = ("tid", "role", "real", "sem", "state", "reason", "token", "ready_seq",
                 "exc", "tb", "waiting", "is_driver", "daemon_like")

    def __init__(self, tid, role, real, is_driver=False):
        self.tid = tid
        self.role = role
        self.real = real
        self.sem = _rt.Semaphore(0)
        self.state = READY
        self.reason = None
        self.token = None
        self.ready_seq = 0
        self.exc = None
        self.tb = None
        self.waiting = None
        self.is_driver = is_driver

    def __repr__(self):
        return f"<T{self.tid} {self.role} {self.state} {self.waiting or ''}>"


class Sim:
    """One simulated execution."""

    def __init__(self, sched=None, epoch=1_600_000_000.0, utc_offset=0, max_steps=400_000,
                 max_sim_time=None, keep_log=False, traced_files=(), window=None):
        sched = dict(sched or {"policy": "serial"})
        self.sched = sched
        self.policy = sched.get("policy", "serial")
        self.rng = random.Random(sched.get("seed", 0))
        self.epoch = float(epoch)
        self.now = 0.0  # seconds since the start of the run (keeps float precision)
        self.mono0 = 1000.0
        self.utc_offset = utc_offset
        self.wall_skew = 0.0  # clock-jump faults add to time.time() only
        self.max_steps = max_steps
        self.max_sim_time = max_sim_time
        self.keep_log = keep_log
        self.log = []
        self._h = hashlib.sha256()
        self._swh = hashlib.sha256()
        self.threads = []
        self.current = None
        self.driver = None
        self.heap = []
        self.seq = 0
        self.ready_seq = 0
        self.steps = 0  # yields + line events
        self.line_events = 0  # in-window line events (pre-emption candidates)
        self.switches = 0
        self.preemptions = 0
        self.killed = False
        self.abort_reason = None
        self.died = []  # [(role, repr(exc), traceback str)]
        self.traced_files = set(traced_files)
        self.window = window  # None or callable(code) -> bool
        self.on_preempt = None  # one-shot callable run at the next change point (see _local_trace)
        self._win_cache = {}
        # decisions
        self.n_choices = 0
        self.rec_pre = []  # line-event numbers where a pre-emption happened
        self.rec_choices = {}  # choice index -> non-zero value
        self.forced_pre = None
        self.forced_choices = None
        if self.policy == "forced":
            self.forced_pre = set(sched.get("pre", ()))
            self.forced_choices = {int(k): v for k, v in (sched.get("choices") or {}).items()}
        self.pre_prob = float(sched.get("p", 0.0))
        self.pct_points = None
        if self.policy == "pct":
            k = int(sched.get("k", 2))
            horizon = max(1, int(sched.get("horizon", 2000)))
            self.pct_offsets = sorted(set(self.rng.randrange(horizon) for _ in range(k)))
            if sched.get("offsets") is not None:
                self.pct_offsets = sorted(set(int(o) for o in sched["offsets"]))  # change points given by the workload itself
            # with sched["arm"] the change points are counted from the moment the workload calls
            # pct_arm() (e.g. when it puts a line in flight), not from the start of the run
            self.pct_points = set() if sched.get("arm") else set(self.pct_offsets)
        self.tracing = self.policy != "serial" and bool(self.traced_files)
        self.stats = {}

    # ------------------------------------------------------------------ util
    def ev(self, *items):
        """Record an observable event (goes into the run digest)."""
        s = repr(items)
        self._h.update(s.encode("utf-8", "backslashreplace"))
        if self.keep_log:
            self.log.append(items)

    def digest(self):
        return self._h.hexdigest()

    def switch_digest(self):
        return self._swh.hexdigest()[:16]

    def count(self, key, n=1):
        self.stats[key] = self.stats.get(key, 0) + n

    def time(self):
        return self.epoch + self.now + self.wall_skew

    def monotonic(self):
        return self.mono0 + self.now

    # ------------------------------------------------------------- decisions
    def choose(self, tag, n):
        """Pick one of n options; 0 is the default option."""
        if n <= 1:
            return 0
        idx = self.n_choices
        self.n_choices += 1
        if self.forced_choices is not None:
            v = self.forced_choices.get(idx, 0)
            if v >= n:
                v = 0
        elif self.policy == "serial":
            v = 0
        else:
            v = self.rng.randrange(n)
        if v:
            self.rec_choices[idx] = v
        return v

    def choose_rare(self, tag, n, p):
        """A recorded choice for a rare event: 0 (nothing happens) with probability 1-p, otherwise one of 1..n.
        Drawn from the run's PRNG under every policy but "forced" (where the recorded value is replayed)."""
        idx = self.n_choices
        self.n_choices += 1
        if self.forced_choices is not None:
            v = self.forced_choices.get(idx, 0)
            if v > n:
                v = 0
        else:
            v = 0 if self.rng.random() >= p else 1 + self.rng.randrange(n)
        if v:
            self.rec_choices[idx] = v
        return v

    def maybe_stall(self, tag):
        """Fault kind "stalled thread": with sched["stall"] = {"p": .., "durations": [..]} a library thread that reads
        the performance counter may be descheduled for a drawn simulated duration right there (host under load, VM
        pause, long GC) - the others run meanwhile and the clock moves on.  A recorded choice like any other."""
        st = self.sched.get("stall")
        if not st or self.killed or self.abort_reason:
            return
        rec = self.current
        if rec is None or rec.real is not _rt.current_thread() or rec.is_driver:
            return
        durs = st.get("durations") or [0.15]
        v = self.choose_rare("stall", len(durs), float(st.get("p", 0.02)))
        if v:
            self.count("fault_stall")
            self.ev("stall", rec.role, tag, durs[v - 1])
            self.block(("stall",), durs[v - 1])

    def stalled(self):
        """Is some thread sitting out an injected stall right now?"""
        return any(t.state == BLOCKED and t.waiting == ("stall",) for t in self.threads)

    def _want_preempt(self):
        n = self.line_events
        if self.forced_pre is not None:
            return n in self.forced_pre
        if self.pct_points is not None:
            return n in self.pct_points
        if self.pre_prob > 0.0:
            return self.rng.random() < self.pre_prob
        return False

    def pct_arm(self, horizon=None):
        """Count the PCT change points from here (no-op for other policies).  With ``horizon`` the offsets are
        drawn anew within that many line events (a workload that knows the overlap it is after is short)."""
        if self.pct_points is not None and self.forced_pre is None:
            if horizon is not None:
                k = max(1, len(self.pct_offsets))
                self.pct_offsets = sorted(set(self.rng.randrange(max(1, int(horizon))) for _ in range(k)))
            self.pct_points = {self.line_events + off for off in self.pct_offsets}

    def decisions(self):
        out = {"policy": "forced", "pre": list(self.rec_pre),
               "choices": {str(k): v for k, v in self.rec_choices.items()}}
        for key in ("timer_slack", "sleep_slack", "stall", "start_handoff"):
            # options that decide WHICH choices are asked for: a forced replay needs them to line the indices up
            if key in self.sched:
                out[key] = self.sched[key]
        return out

    # --------------------------------------------------------------- threads
    def attach_driver(self):
        rec = ThreadRec(0, "driver", _rt.current_thread(), is_driver=True)
        rec.state = RUNNING
        self.threads.append(rec)
        self.current = rec
        self.driver = rec
        return rec

    def _rec_of_current(self):
        rec = self.current
        if rec is None or rec.real is not _rt.current_thread():
            if self.killed:
                raise SimKilled()
            raise RuntimeError(f"sim call from thread without baton: {_rt.current_thread()} current={rec}")
        return rec

    def register(self, real, role):
        rec = ThreadRec(len(self.threads), role, real)
        self.ready_seq += 1
        rec.ready_seq = self.ready_seq
        self.threads.append(rec)
        self.ev("thread", rec.tid, role)
        return rec

    def rec_for(self, real):
        for rec in self.threads:
            if rec.real is real:
                return rec
        return None

    def spawn(self, fn, *args, role=None):
        th = _rt.Thread(target=fn, args=args)
        th._sim_role = role or getattr(fn, "__name__", "thread")
        th.start()
        return th

    def _thread_main(self, rec, run):
        rec.sem.acquire()
        if self.killed:
            rec.state = DONE
            return
        rec.state = RUNNING
        if self.tracing:
            sys.settrace(self._global_trace)
        try:
            run()
        except SimKilled:
            pass
        except BaseException as exc:  # pylint: disable=broad-except
            if not self.killed:
                rec.exc = exc
                rec.tb = traceback.format_exc()
                self.died.append((rec.role, repr(exc), rec.tb))
                self.ev("thread_died", rec.tid, rec.role, type(exc).__name__)
        finally:
            sys.settrace(None)
            rec.state = DONE
            if not self.killed:
                self.ev("thread_exit", rec.tid)
                self._wake_joiners(rec)
                try:
                    self._handoff_exit(rec)
                except SimKilled:
                    pass

    def _wake_joiners(self, rec):
        for other in self.threads:
            if other.state == BLOCKED and other.waiting == ("join", rec.tid):
                self._wake(other, "joined")

    def _handoff_exit(self, rec):
        nxt = self._pick_next(rec)
        if nxt is None:
            return
        self.current = nxt
        nxt.sem.release()

    # -------------------------------------------------------------- schedule
    def _wake(self, rec, reason):
        if rec.state in (BLOCKED,):
            rec.state = READY
            rec.reason = reason
            rec.waiting = None
            if rec.token is not None:
                rec.token[0] = True
                rec.token = None
            self.ready_seq += 1
            rec.ready_seq = self.ready_seq

    def call_at(self, when, fn):
        """Schedule fn() (runs inside the scheduler, must not block).  Instants are kept on a
        nanosecond grid so that periodic activities with commensurable periods (the 20 ms poll
        loop, the 10 s save timer) really do fall on the same instant, as they can in real time."""
        when = round(when, 9)
        self.seq += 1
        token = [False]
        heapq.heappush(self.heap, (when, self.seq, token, fn))
        return token

    def events_within(self, slack):
        """Distinct times of the pending events in (now, now+slack], ascending."""
        return sorted({when for when, _seq, token, _fn in self.heap if not token[0] and self.now < when <= self.now + slack})

    def _pick_next(self, cur):
        """Choose who runs next.  cur is the thread giving up the baton."""
        while True:
            if self.killed:
                raise SimKilled()
            if self.abort_reason and self.driver is not None and self.driver.state != DONE:
                drv = self.driver
                drv.state = READY
                drv.reason = "abort"
                return drv
            # everything that is due at this instant becomes runnable before a choice is made
            while self.heap and self.heap[0][0] <= self.now:
                _when, _seq, token, fn = heapq.heappop(self.heap)
                if not token[0]:
                    token[0] = True
                    fn()
            ready = [t for t in self.threads if t.state == READY and t is not cur]
            if cur is not None and cur.state == READY and not ready:
                return cur
            if ready:
                ready.sort(key=lambda t: t.ready_seq)
                i = self.choose("sched", len(ready))
                return ready[i]
            drv = self.driver
            if drv is not None and drv.state == IDLEWAIT:
                drv.state = READY
                drv.reason = "idle"
                return drv
            # advance the clock
            fired = False
            while self.heap:
                when, _seq, token, fn = heapq.heappop(self.heap)
                if token[0]:
                    continue
                if when > self.now:
                    if self.max_sim_time is not None and when > self.max_sim_time:
                        self.abort_reason = "sim-time cap"
                        fired = True
                        break
                    self.now = when
                token[0] = True
                fn()
                fired = True
                break
            if fired:
                continue
            # nothing can ever happen again
            if drv is not None and drv.state == BLOCKED:
                drv.state = READY
                drv.reason = "deadlock"
                return drv
            if cur is not None and cur.state == DONE:
                return None
            raise Deadlock(self.describe())

    def describe(self):
        return "; ".join(repr(t) for t in self.threads if t.state != DONE)

    def _switch(self, rec):
        """rec (the current thread) gives up the baton according to rec.state."""
        self.steps += 1
        if self.steps > self.max_steps and not self.abort_reason:
            self.abort_reason = "step cap"
        nxt = self._pick_next(rec)
        if nxt is rec:
            rec.state = RUNNING
        else:
            self.switches += 1
            self.current = nxt
            nxt.sem.release()
            rec.sem.acquire()
            if self.killed:
                raise SimKilled()
            rec.state = RUNNING
        if rec.is_driver:
            if self.abort_reason:
                rec.reason = None
                raise SimAbort(self.abort_reason)
            if rec.reason == "deadlock":
                rec.reason = None
                raise Deadlock(self.describe())
        reason = rec.reason
        rec.reason = None
        return reason

    def block(self, waiting, timeout=None):
        """Park the current thread until woken or until timeout elapsed."""
        if self.killed:
            raise SimKilled()
        rec = self._rec_of_current()
        rec.state = BLOCKED
        rec.waiting = waiting
        rec.reason = None
        if timeout is not None:
            rec.token = self.call_at(self.now + max(0.0, timeout), lambda r=rec: self._timeout(r))
        return self._switch(rec)

    def _timeout(self, rec):
        if rec.state == BLOCKED:
            rec.token = None
            self._wake(rec, "timeout")

    def yield_point(self):
        """Voluntary yield: others may run, time does not advance."""
        if self.killed:
            raise SimKilled()
        rec = self._rec_of_current()
        rec.state = READY
        self.ready_seq += 1
        rec.ready_seq = self.ready_seq
        return self._switch(rec)

    def sleep(self, duration):
        if duration is None or duration <= 0:
            self.yield_point()
            return
        slack = (self.sched or {}).get("sleep_slack", 0)
        if slack and self.current is not None and not self.current.is_driver:
            # sleep() guarantees "at least": with sched["sleep_slack"] a sleeping thread may wake together with
            # something else that happens within the slack after its due time (a recorded choice) - which is
            # how two periodic activities with unrelated phases get to run at the same instant
            due = round(self.now + duration, 9)
            cands = sorted({when for when, _seq, token, _fn in self.heap if not token[0] and due < when <= due + slack})
            pick = self.choose("sleep_slack", len(cands) + 1)
            if pick:
                self.count("sleeps_coalesced")
                duration = cands[pick - 1] - self.now
        self.block(("sleep",), duration)

    def wait_idle(self):
        """Driver only: resume when no other thread is runnable *now*."""
        rec = self._rec_of_current()
        assert rec.is_driver
        rec.state = IDLEWAIT
        rec.waiting = ("idle",)
        self._switch(rec)

    def join(self, real, timeout=None):
        rec = self.rec_for(real)
        if rec is None:
            return
        if rec.state == DONE:
            return
        me = self._rec_of_current()
        if rec is me:
            raise RuntimeError("cannot join current thread")
        self.block(("join", rec.tid), timeout)

    # ---------------------------------------------------------------- trace
    def _global_trace(self, frame, event, arg):
        if frame.f_code.co_filename in self.traced_files:
            return self._local_trace
        return None

    def _local_trace(self, frame, event, arg):
        if event != "line":
            return self._local_trace
        if self.killed:
            raise SimKilled()
        code = frame.f_code
        if self.window is not None:
            ok = self._win_cache.get(code)
            if ok is None:
                ok = self._win_cache[code] = bool(self.window(code))
            if not ok:
                return self._local_trace
        self.steps += 1
        n = self.line_events
        self.line_events = n + 1
        if self.steps > self.max_steps and not self.abort_reason:
            self.abort_reason = "step cap"
        if not self.abort_reason and not self._want_preempt():
            return self._local_trace
        rec = self.current
        if rec is None or rec.real is not _rt.current_thread() or rec.is_driver:
            return self._local_trace
        hook = self.on_preempt
        if hook is not None and not self.abort_reason:
            # a workload may tie ONE event to the first change point that comes up (eg the next chunk arrives at exactly
            # the instant the scheduler takes the running thread off the CPU): it runs here, in the pre-empted thread's
            # context, and typically makes another thread runnable
            self.on_preempt = None
            hook()
        others = [t for t in self.threads if t.state == READY and t is not rec]
        if not others and not self.abort_reason:
            return self._local_trace
        self.preemptions += 1
        self.rec_pre.append(n)
        self._swh.update(f"{rec.role}@{code.co_name}:{frame.f_lineno};".encode())
        rec.state = READY
        self.ready_seq += 1
        rec.ready_seq = self.ready_seq
        self._switch(rec)
        return self._local_trace

    def preempt_point(self, tag):
        """A pre-emption candidate that is not a source line: a read of an instrumented shared attribute (two reads in
        ONE expression cannot be split by line events).  Counted and decided exactly like a line event."""
        if not self.tracing or self.killed:
            return
        rec = self.current
        if rec is None or rec.real is not _rt.current_thread() or rec.is_driver:
            return
        self.steps += 1
        n = self.line_events
        self.line_events = n + 1
        if self.abort_reason or not self._want_preempt():
            return
        others = [t for t in self.threads if t.state == READY and t is not rec]
        if not others:
            return
        self.preemptions += 1
        self.rec_pre.append(n)
        self._swh.update(f"{rec.role}@{tag};".encode())
        rec.state = READY
        self.ready_seq += 1
        rec.ready_seq = self.ready_seq
        self._switch(rec)

    # ------------------------------------------------------------- lifecycle
    def shutdown(self):
        """Tear the run down: every parked thread unwinds with SimKilled."""
        self.killed = True
        for rec in self.threads:
            if not rec.is_driver and rec.state != DONE:
                rec.sem.release()
        leaked = 0
        for rec in self.threads:
            if not rec.is_driver:
                _ORIG_JOIN(rec.real, 5.0)
                if _ORIG_IS_ALIVE(rec.real):
                    leaked += 1
        return leaked


# --------------------------------------------------------------------------
# Thread.start / join patches (installed once per process by world.install)
# --------------------------------------------------------------------------
def _role_of(th):
    role = getattr(th, "_sim_role", None)
    if role:
        return role
    target = getattr(th, "_target", None)
    if target is not None:
        return getattr(target, "__name__", "target")
    return type(th).__name__


def _patched_start(self):
    sim = CURRENT
    if sim is None or sim.killed:
        return _ORIG_START(self)
    if sim.rec_for(self) is not None or self._started.is_set():
        # a second start() of the same Thread object: the real thing raises RuntimeError and so must this
        # (registering a phantom runnable thread here would hand the baton to nobody)
        raise RuntimeError("threads can only be started once")
    rec = sim.register(self, _role_of(self))
    run = self.run

    def _run():
        sim._thread_main(rec, run)

    self.run = _run
    _ORIG_START(self)
    if sim.sched.get("start_handoff") and sim.current is not None and sim.current.real is _rt.current_thread():
        # whether the new thread or its creator runs first is the operating system's call: a recorded choice
        handoff = sim.sched["start_handoff"]
        if sim.choose_rare("thread_start", 1, 0.5 if handoff is True else float(handoff)):
            sim.count("started_thread_ran_first")
            sim.yield_point()
    return None


def _patched_join(self, timeout=None):
    sim = CURRENT
    if sim is None or sim.killed or sim.rec_for(self) is None:
        return _ORIG_JOIN(self, timeout)
    return sim.join(self, timeout)


def _patched_is_alive(self):
    sim = CURRENT
    if sim is not None and not sim.killed:
        rec = sim.rec_for(self)
        if rec is not None:
            return rec.state != DONE
    return _ORIG_IS_ALIVE(self)


def install_thread_patches():
    _rt.Thread.start = _patched_start
    _rt.Thread.join = _patched_join
    _rt.Thread.is_alive = _patched_is_alive


# --------------------------------------------------------------------------
# Shims for threading primitives
# --------------------------------------------------------------------------
class SimLock:
    """threading.Lock replacement; direct hand-off to the oldest waiter."""

    def __init__(self):
        self.owner = None
        self.waiters = []

    def acquire(self, blocking=True, timeout=-1):
        sim = CURRENT
        if sim is None or sim.killed:
            if sim is not None and sim.killed:
                raise SimKilled()
            self.owner = "nosim"
            return True
        rec = sim._rec_of_current()
        if self.owner is None:
            self.owner = rec
            return True
        if not blocking:
            return False
        self.waiters.append(rec)
        reason = sim.block(("lock", id(self)), None if timeout is None or timeout < 0 else timeout)
        if reason == "lock":
            return True
        if rec in self.waiters:
            self.waiters.remove(rec)
        return False

    def release(self):
        sim = CURRENT
        if sim is None or sim.killed:
            self.owner = None
            return
        if self.waiters:
            nxt = self.waiters.pop(0)
            self.owner = nxt
            sim._wake(nxt, "lock")
            # releasing a contended lock is where real schedulers like to switch to the waiter: under the
            # pre-emptive policies that is a (recorded) choice, so "the waiter runs before the releaser's
            # next statement" does not depend on a line-level pre-emption landing exactly there
            if sim.tracing and sim.current is not None and not sim.current.is_driver and sim.choose("lock_handoff", 2):
                sim.count("lock_handoff_switches")
                sim.yield_point()
        else:
            self.owner = None

    def locked(self):
        return self.owner is not None

    __enter__ = acquire

    def __exit__(self, *exc):
        self.release()
        return False


class SimEvent:
    """threading.Event replacement."""

    def __init__(self):
        self._flag = False
        self.waiters = []

    def is_set(self):
        return self._flag

    isSet = is_set

    def set(self):
        self._flag = True
        sim = CURRENT
        waiters, self.waiters = self.waiters, []
        if sim is None or sim.killed:
            return
        for rec in waiters:
            sim._wake(rec, "event")

    def clear(self):
        self._flag = False

    def wait(self, timeout=None):
        if self._flag:
            return True
        sim = CURRENT
        if sim is None:
            return self._flag
        rec = sim._rec_of_current()
        self.waiters.append(rec)
        sim.block(("event", id(self)), timeout)
        if rec in self.waiters:
            self.waiters.remove(rec)
        return self._flag


class SimTimer:
    """threading.Timer replacement running on the simulated clock."""

    def __init__(self, interval, function, args=None, kwargs=None):
        self.interval = interval
        self.function = function
        self.args = args or ()
        self.kwargs = kwargs or {}
        self.finished = SimEvent()
        self.thread = None
        self.fired = False
        sim = CURRENT
        if sim is not None:
            sim.ev("timer_new", interval)
            sim.count("timers_created")

    def _run(self):
        self.finished.wait(self.interval)
        sim = CURRENT
        slack = (sim.sched or {}).get("timer_slack", 0) if sim is not None else 0
        if slack and not self.finished.is_set():
            # a Timer is never punctual: with sched["timer_slack"] it may oversleep to the wake-up of
            # something else within the slack (a recorded choice), so that timer work and e.g. the poll
            # loop start at the same instant and the scheduler decides how they interleave
            cands = sim.events_within(slack)
            pick = sim.choose("timer_slack", len(cands) + 1)
            if pick:
                sim.count("timers_coalesced")
                self.finished.wait(cands[pick - 1] - sim.now)
        if not self.finished.is_set():
            self.fired = True
            self.function(*self.args, **self.kwargs)
        self.finished.set()

    def start(self):
        sim = CURRENT
        self.thread = sim.spawn(self._run, role="timer")
        sim.timers = getattr(sim, "timers", [])
        sim.timers.append(self)

    def cancel(self):
        self.finished.set()

    def is_alive(self):
        return self.thread is not None and self.thread.is_alive()

    def join(self, timeout=None):
        if self.thread is not None:
            self.thread.join(timeout)


class ThreadingShim:
    """Stands in for the ``threading`` module inside library modules."""

    Thread = _rt.Thread
    Lock = SimLock
    RLock = SimLock
    Event = SimEvent
    Timer = SimTimer
    current_thread = staticmethod(_rt.current_thread)
    get_ident = staticmethod(_rt.get_ident)
    main_thread = staticmethod(_rt.main_thread)


class TimeShim:
    """Stands in for the ``time`` module inside library modules."""

    struct_time = _real_time.struct_time

    @staticmethod
    def time():
        sim = CURRENT
        return sim.time() if sim is not None else 1_600_000_000.0

    @staticmethod
    def monotonic():
        sim = CURRENT
        return sim.monotonic() if sim is not None else 1000.0

    perf_counter = monotonic

    @staticmethod
    def sleep(duration):
        sim = CURRENT
        if sim is not None:
            sim.sleep(duration)

    @staticmethod
    def localtime(secs=None):
        sim = CURRENT
        if secs is None:
            secs = sim.time() if sim is not None else 1_600_000_000.0
        off = sim.utc_offset if sim is not None else 0
        # a faithful local broken-down time: the fields are those of UTC+off and the zone fields say so
        # (code that "corrects" with tm_gmtoff must see the real offset, not 0)
        fields = tuple(_real_time.gmtime(secs + off))[:9]
        sign = "+" if off >= 0 else "-"
        zone = "UTC" if off == 0 else f"SIM{sign}{abs(off) // 3600:02d}{abs(off) % 3600 // 60:02d}"
        return _real_time.struct_time(fields + (zone, off))

    @staticmethod
    def gmtime(secs=None):
        sim = CURRENT
        if secs is None:
            secs = sim.time() if sim is not None else 1_600_000_000.0
        return _real_time.gmtime(secs)


def sim_timer():
    """Replacement for timeit.default_timer bound into mysensors.task."""
    sim = CURRENT
    if sim is None:
        return 1000.0
    sim.maybe_stall("timer")
    return sim.monotonic()


def instrument_shared_attr(cls, name):
    """Harness-side: make every READ of ``obj.<name>`` (obj an instance of cls) a pre-emption candidate."""
    store = "_sim_shared_" + name

    def getter(self):
        sim = CURRENT
        if sim is not None:
            sim.preempt_point(f"{cls.__name__}.{name}")
        return self.__dict__.get(store)

    def setter(self, value):
        self.__dict__[store] = value

    setattr(cls, name, property(getter, setter))


def activate(sim):
    global CURRENT  # pylint: disable=global-statement
    CURRENT = sim


def deactivate():
    global CURRENT  # pylint: disable=global-statement
    CURRENT = None
