"""asyncio on the simulated clock.

``SimLoop`` is a ``BaseEventLoop`` whose clock is the kernel's clock and whose
"selector" parks the loop thread in the kernel.  It runs in a controlled
thread, so executor jobs (``run_in_executor`` -> one controlled thread each)
interleave with it under the same scheduler as everything else.

``SimAsyncTransport`` stands in for asyncio's selector socket transport and
for ``serial_asyncio.SerialTransport`` and follows their callback contracts
(see DESIGN.md section 1, "stubs").
"""
import asyncio
import serial as _real_serial

from . import kernel
from .devices import _Conn


class _Selector:
    def __init__(self, loop):
        self.loop = loop

    def select(self, timeout=None):
        self.loop._sim_wait(timeout)
        return []

    def close(self):
        return None


class SimLoop(asyncio.BaseEventLoop):
    def __init__(self, sim):
        super().__init__()
        self.sim = sim
        self._selector = _Selector(self)
        self._wake = kernel.SimEvent()
        self._clock_resolution = 1e-9
        self.exceptions = []  # [(message, repr(exc))]
        self.set_exception_handler(self._on_exception)
        self.executor_jobs = 0

    # -- BaseEventLoop plumbing ------------------------------------------------
    def time(self):
        return self.sim.monotonic()

    def _process_events(self, event_list):
        return None

    def _write_to_self(self):
        self._wake.set()

    def _sim_wait(self, timeout):
        if timeout is not None and timeout <= 0:
            return
        if self._wake.is_set():
            self._wake.clear()
            return
        self._wake.wait(timeout)
        self._wake.clear()

    def _on_exception(self, loop, context):
        exc = context.get("exception")
        msg = context.get("message")
        self.exceptions.append((msg, repr(exc)))
        self.sim.ev("loop_exception", msg, type(exc).__name__ if exc else None)

    # -- executor ---------------------------------------------------------------
    def run_in_executor(self, executor, func, *args):
        fut = self.create_future()
        self.executor_jobs += 1

        def _set_result(res):
            if not fut.done():
                fut.set_result(res)

        def _set_exc(exc):
            if not fut.done():
                fut.set_exception(exc)

        def work():
            try:
                res = func(*args)
            except kernel.SimKilled:
                raise
            except Exception as exc:  # pylint: disable=broad-except
                self.call_soon_threadsafe(_set_exc, exc)
            else:
                self.call_soon_threadsafe(_set_result, res)

        work.__name__ = "executor"
        self.sim.spawn(work, role="executor")
        return fut

    # -- connections ------------------------------------------------------------
    async def create_connection(self, protocol_factory, host=None, port=None, **kwargs):
        device = self.sim.device
        outcome = device.next_outcome(("atcp", (host, port), None))
        if outcome == "slow":
            await asyncio.sleep(0.25)
            outcome = "ok"
        if outcome == "timeout":
            await self.create_future()  # never completes; wait_for cancels it
        if outcome == "unreach":
            await asyncio.sleep(1.0)
            raise OSError(113, "No route to host")
        if outcome != "ok":
            raise ConnectionRefusedError(111, "Connection refused")
        protocol = protocol_factory()
        waiter = self.create_future()
        transport = SimAsyncTransport(self, device, protocol, "tcp", waiter)
        try:
            await waiter
        except BaseException:
            transport.close()
            raise
        return transport, protocol

    def stop_from_outside(self):
        self.call_soon_threadsafe(self.stop)


class SimAsyncTransport(_Conn, asyncio.Transport):
    def __init__(self, loop, device, protocol, kind, waiter=None):
        asyncio.Transport.__init__(self)
        _Conn.__init__(self, device)
        self._loop = loop
        self._protocol = protocol
        self.kind = kind  # "tcp" | "serial"
        self._closing = False
        self._lost_called = False
        loop.call_soon(self._connection_made, waiter)

    def __repr__(self):
        return f"SimAsyncTransport<{self.kind} #{self.conn_id}>"

    def _connection_made(self, waiter):
        try:
            self._protocol.connection_made(self)
        except Exception as exc:  # pylint: disable=broad-except
            if waiter is not None and not waiter.done():
                waiter.set_exception(exc)
                return
            self._loop.call_exception_handler(
                {"message": "connection_made failed", "exception": exc, "transport": self})
            return
        if waiter is not None and not waiter.done():
            waiter.set_result(None)

    # -- inbound (called from any thread) ---------------------------------------
    def deliver(self, data):
        self._loop.call_soon_threadsafe(self._data_received, bytes(data))

    def _data_received(self, data):
        if self._closing:
            return
        if self.kind == "serial":
            # serial_asyncio lets the exception escape into the loop's handler
            self._protocol.data_received(data)
            return
        try:
            self._protocol.data_received(data)
        except (SystemExit, KeyboardInterrupt, kernel.SimKilled):
            raise
        except BaseException as exc:  # pylint: disable=broad-except
            self._fatal_error(exc, "Fatal error: protocol.data_received() call failed.")

    def fail_read(self, exc):
        self._loop.call_soon_threadsafe(self._read_failed, exc)

    def _read_failed(self, exc):
        if self._closing:
            return
        self.sim.count("fault_read_error")
        if self.kind == "serial":
            self._force_close(exc)
        else:
            self._fatal_error(exc, "Fatal read error on socket transport")

    def peer_eof(self):
        self._loop.call_soon_threadsafe(self._eof)

    def _eof(self):
        if self._closing:
            return
        keep_open = False
        try:
            keep_open = self._protocol.eof_received()
        except Exception as exc:  # pylint: disable=broad-except
            self._fatal_error(exc, "Fatal error: protocol.eof_received() call failed.")
            return
        if not keep_open:
            self.close()

    # -- asyncio.Transport API --------------------------------------------------
    def write(self, data):
        if not isinstance(data, (bytes, bytearray, memoryview)):
            raise TypeError(f"data argument must be a bytes-like object, not {type(data).__name__!r}")
        if self._closing:
            self.sim.count("write_after_close_ignored")
            return
        if self.device.write_hook is not None:
            self.device.write_hook(self, data)
        if self.write_exc is not None:
            exc, self.write_exc = self.write_exc, None
            self.sim.count("fault_write_error")
            self._fatal_error(exc, "Fatal write error on transport")
            return
        self.device.record_write(self, data)

    def is_closing(self):
        return self._closing

    def close(self):
        if self._closing:
            return
        self._force_close(None)

    def abort(self):
        if self._closing:
            return
        self._force_close(None)

    def _fatal_error(self, exc, message):
        if not isinstance(exc, OSError):
            self._loop.call_exception_handler(
                {"message": message, "exception": exc, "transport": self, "protocol": self._protocol})
        self._force_close(exc)

    def _force_close(self, exc):
        if self._closing:
            return
        self._closing = True
        self.is_open = False
        self.closed_at = self.sim.now
        self.close_exc = exc
        self.sim.ev("conn_close", self.conn_id)
        self._loop.call_soon(self._call_connection_lost, exc)

    def _call_connection_lost(self, exc):
        if self._lost_called:
            return
        self._lost_called = True
        self._protocol.connection_lost(exc)

    def get_extra_info(self, name, default=None):
        return default

    def can_write_eof(self):
        return False


class SerialAsyncioShim:
    """Stands in for ``serial_asyncio`` inside mysensors.gateway_serial."""

    @staticmethod
    async def create_serial_connection(loop, protocol_factory, *args, **kwargs):
        sim = kernel.CURRENT
        device = sim.device
        outcome = device.next_outcome(("aserial",) + tuple(args))
        if outcome == "slow":
            outcome = "ok"
        if outcome != "ok":
            raise _real_serial.SerialException(f"could not open port: simulated {outcome}")
        protocol = protocol_factory()
        transport = SimAsyncTransport(loop, device, protocol, "serial", None)
        return transport, protocol
