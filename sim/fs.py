"""SimFS: in-memory file system with durable/volatile layers and fault points.

Model (DESIGN.md 2.4):
* every inode has ``cache`` (what the OS would return now) and ``durable``
  (what survives power loss); ``fsync`` copies cache -> durable and commits the
  directory journal;
* open files written through a user-space buffer of ``bufsize`` bytes (data in
  that buffer is lost by *any* crash, as in CPython's BufferedWriter);
* directory operations (link / unlink / rename) are journalled in order; a
  power-loss crash keeps a drawn *prefix* of the uncommitted journal;
* each FS-visible operation is a numbered fault point.
"""
import errno
import io
import posixpath

FAULT_OPS = ("open", "write", "flush", "fsync", "close", "rename", "remove")
ALL_OPS = ("isfile", "access") + FAULT_OPS


class Crash(BaseException):
    """The simulated process dies here (not catchable by ``except Exception``)."""


class Inode:
    __slots__ = ("cache", "durable", "ino", "link")
    _next = 0

    def __init__(self):
        self.cache = b""
        self.durable = None  # None: never reached the disk
        self.link = None  # target path: this directory entry is a symbolic link
        Inode._next += 1
        self.ino = Inode._next


class SimFS:
    def __init__(self, bufsize=8192, cwd="/work"):
        self.cwd = cwd
        self.dirs = {"/", cwd}
        self.readonly = set()  # paths (files or dirs) without write permission
        self.unreadable = set()
        self.files = {}  # path -> Inode (volatile directory view)
        self.durable_files = {}  # path -> Inode (as of last journal commit)
        self.journal = []  # uncommitted directory operations
        self.bufsize = bufsize
        self.open_files = []
        self.next_fd = 10
        self.fds = {}
        self.raw_fds = {}
        self.read_faults = {}  # path -> kind: one-shot error when the file is opened for reading
        self.read_faults_fired = 0
        self.read_delays = {}  # path -> seconds: one-shot slow read
        self.op_delay = {}  # operation name -> seconds every such operation takes (only "fsync" so far)
        # fault machinery
        self.armed = False
        self.opno = 0
        self.oplog = []  # [(n, opname, path)]
        self.plan = {}  # n -> kind
        self.fired = []  # [(n, opname, kind)]
        self.dead = False  # set by a crash when die_on_crash: every later operation (other threads) crashes too
        self.die_on_crash = False
        self.trace = None  # optional callable(opname, path)

    # ------------------------------------------------------------------ misc
    def norm(self, path):
        path = str(path)
        if not path.startswith("/"):
            path = posixpath.join(self.cwd, path)
        return posixpath.normpath(path)

    def follow(self, path):
        """Resolve a symbolic link in the last component (name operations - rename, remove - do not follow)."""
        path = self.norm(path)
        for _ in range(8):
            ino = self.files.get(path)
            if ino is None or ino.link is None:
                return path
            path = self.norm(posixpath.join(posixpath.dirname(path), ino.link))
        raise OSError(errno.ELOOP, "Too many levels of symbolic links", path)

    def symlink(self, target, path):
        """Harness helper / os.symlink: a durable symbolic link ``path`` -> ``target``."""
        path = self.norm(path)
        self.mkdir(posixpath.dirname(path))
        ino = Inode()
        ino.link = str(target)
        ino.durable = b""
        self.files[path] = ino
        self.durable_files[path] = ino

    def islink(self, path):
        ino = self.files.get(self.norm(path))
        return ino is not None and ino.link is not None

    def realpath(self, path):
        return self.follow(path)

    def mkdir(self, path):
        path = self.norm(path)
        while path not in self.dirs:
            self.dirs.add(path)
            path = posixpath.dirname(path)

    def clone(self):
        """Deep copy of the volatile view (what the OS shows right now)."""
        other = SimFS(self.bufsize, self.cwd)
        other.dirs = set(self.dirs)
        other.readonly = set(self.readonly)
        other.unreadable = set(self.unreadable)
        for path, ino in self.files.items():
            new = Inode()
            new.cache = ino.cache
            new.durable = ino.cache
            new.link = ino.link
            other.files[path] = new
            other.durable_files[path] = new
        return other

    def put(self, path, data):
        """Harness helper: create a fully durable file."""
        path = self.norm(path)
        self.mkdir(posixpath.dirname(path))
        ino = Inode()
        ino.cache = bytes(data)
        ino.durable = bytes(data)
        self.files[path] = ino
        self.durable_files[path] = ino

    def get(self, path):
        ino = self.files.get(self.follow(path))
        return None if ino is None else ino.cache

    def listing(self):
        return {p: i.cache for p, i in sorted(self.files.items())}

    def sync_all(self):
        for ino in self.files.values():
            ino.durable = ino.cache
        self.durable_files = dict(self.files)
        self.journal = []

    # ---------------------------------------------------------------- faults
    def arm(self, plan=None):
        self.armed = True
        self.opno = 0
        self.oplog = []
        self.plan = dict(plan or {})
        self.fired = []

    def disarm(self):
        self.armed = False
        self.plan = {}

    def _point(self, opname, path):
        """Fault point before the operation takes effect.  Returns the kind of a
        post-operation crash to raise (``crash_after``) or None."""
        if self.trace is not None:
            self.trace(opname, path)
        if self.dead:
            raise Crash(f"process already dead at {opname}")  # other threads of a crashed process do nothing more
        if not self.armed:
            return None
        n = self.opno
        self.opno += 1
        self.oplog.append((n, opname, path))
        kind = self.plan.get(n)
        if kind is None:
            return None
        self.fired.append((n, opname, kind))
        if kind == "crash_before":
            self.dead = self.die_on_crash
            raise Crash(f"crash before {opname}#{n}")
        if kind == "crash_after":
            return "crash_after"
        if opname in FAULT_OPS:
            # errors of operations on an OPEN file (write, flush, fsync, close) carry no file name - only the ones that take a
            # path (open, rename, remove) do; code that formats exc.filename must cope with None
            named = (path,) if opname in ("open", "rename", "remove") else ()
            if kind == "EIO":
                raise OSError(errno.EIO, "Input/output error (simulated)", *named)
            if kind == "EACCES":
                raise PermissionError(errno.EACCES, "Permission denied (simulated)", *named)
            if kind == "ETIMEDOUT":
                # what a network file system reports when the server does not answer (an OSError that IS a TimeoutError)
                raise TimeoutError(errno.ETIMEDOUT, "Connection timed out (simulated)", *named)
            if kind == "ENOSPC":
                if opname in ("write", "flush", "close"):
                    return "ENOSPC"
                raise OSError(errno.ENOSPC, "No space left on device (simulated)", *named)
            if kind == "NOMEM":
                # a failing allocation (the buffered writer cannot get its buffer, the serialiser cannot grow its frame): what the
                # saving code sees is a MemoryError - not an OSError - out of the file operation it was in
                raise MemoryError("simulated allocation failure")
        return None

    def _after(self, post, opname):
        if post == "crash_after":
            self.dead = self.die_on_crash
            raise Crash(f"crash after {opname}")

    # ------------------------------------------------------------------ os.*
    def isfile(self, path):
        empty = str(path) == ""
        path = self.norm(path)
        post = self._point("isfile", path)
        res = not empty and self.follow(path) in self.files
        self._after(post, "isfile")
        return res

    def exists(self, path):
        if str(path) == "":
            return False
        path = self.follow(path)
        return path in self.files or path in self.dirs

    def access(self, path, mode):
        empty = str(path) == ""  # the empty path names nothing (it is NOT the working directory)
        path = self.norm(path)
        post = self._point("access", path)
        path = self.follow(path)
        if empty or (path not in self.files and path not in self.dirs):
            res = False
        elif mode & 2 and path in self.readonly:
            res = False
        elif mode & 4 and path in self.unreadable:
            res = False
        else:
            res = True
        self._after(post, "access")
        return res

    def rename(self, src, dst):
        src, dst = self.norm(src), self.norm(dst)
        post = self._point("rename", src)
        if src not in self.files:
            raise FileNotFoundError(errno.ENOENT, "No such file or directory", src)
        if posixpath.dirname(dst) not in self.dirs:
            raise FileNotFoundError(errno.ENOENT, "No such file or directory", dst)
        self.files[dst] = self.files.pop(src)
        self.journal.append(("rename", src, dst))
        self._after(post, "rename")

    replace = rename

    def link(self, src, dst):
        """os.link: a second name for the same inode; fails if the destination exists."""
        src, dst = self.follow(src), self.norm(dst)
        post = self._point("link", src)
        if src not in self.files:
            raise FileNotFoundError(errno.ENOENT, "No such file or directory", src)
        if dst in self.files or dst in self.dirs:
            raise FileExistsError(errno.EEXIST, "File exists", dst)
        if posixpath.dirname(dst) not in self.dirs:
            raise FileNotFoundError(errno.ENOENT, "No such file or directory", dst)
        self.files[dst] = self.files[src]
        self.journal.append(("link", dst, self.files[src]))
        self._after(post, "link")

    def remove(self, path):
        path = self.norm(path)
        post = self._point("remove", path)
        if path not in self.files:
            raise FileNotFoundError(errno.ENOENT, "No such file or directory", path)
        del self.files[path]
        self.journal.append(("unlink", path))
        self._after(post, "remove")

    unlink = remove

    def fsync(self, fd):
        fobj = self.fds.get(fd)
        if fobj is None:
            raise OSError(errno.EBADF, "Bad file descriptor")
        post = self._point("fsync", fobj.path)
        delay = self.op_delay.get("fsync")
        if delay:
            # a slow medium: the calling thread sits in fsync for a while (simulated clock); everything else goes on
            from . import kernel as _kernel  # pylint: disable=import-outside-toplevel
            if _kernel.CURRENT is not None:
                _kernel.CURRENT.count("fault_slow_fsync")
                _kernel.CURRENT.sleep(delay)
        fobj.inode.durable = fobj.inode.cache
        # ordered journal: everything before this point is committed with it
        self.durable_files = dict(self.files)
        self.journal = []
        self._after(post, "fsync")

    # ------------------------------------------------------------------ open
    def open(self, path, mode="r", buffering=-1, encoding=None, errors=None, newline=None):
        path = self.follow(path)
        binary = "b" in mode
        if "w" in mode:
            post = self._point("open", path)
            if posixpath.dirname(path) not in self.dirs:
                raise FileNotFoundError(errno.ENOENT, "No such file or directory", path)
            if path in self.readonly or posixpath.dirname(path) in self.readonly and path not in self.files:
                raise PermissionError(errno.EACCES, "Permission denied", path)
            ino = self.files.get(path)
            if ino is None:
                ino = Inode()
                self.files[path] = ino
                self.journal.append(("link", path, ino))
            else:
                ino.cache = b""
            fobj = SimWriteFile(self, path, ino, binary, encoding or "utf-8")
            self._after(post, "open")
            return fobj
        if "r" in mode:
            if self.trace is not None:
                self.trace("open_r", path)
            ino = self.files.get(path)
            if ino is None:
                raise FileNotFoundError(errno.ENOENT, "No such file or directory", path)
            if path in self.read_faults:
                kind = self.read_faults.pop(path)  # one-shot transient error on reading
                self.read_faults_fired += 1
                raise OSError(errno.EIO if kind == "EIO" else errno.EMFILE, f"simulated {kind} on read", path)
            if path in self.unreadable:
                raise PermissionError(errno.EACCES, "Permission denied", path)
            if path in self.read_delays:
                # a slow medium (network share, worn SD card): the read takes this long on the simulated clock
                delay = self.read_delays.pop(path)
                from . import kernel as _kernel  # pylint: disable=import-outside-toplevel
                if _kernel.CURRENT is not None:
                    _kernel.CURRENT.count("fault_slow_read")
                    _kernel.CURRENT.sleep(delay)
                # (the descriptor was opened before the wait: it keeps reading that inode even if the name
                # has been renamed away or replaced meanwhile)
            raw = io.BytesIO(ino.cache)
            if binary:
                return raw
            return io.TextIOWrapper(raw, encoding=encoding or "utf-8", errors=errors, newline=newline)
        raise ValueError(f"SimFS: unsupported mode {mode!r}")

    # ------------------------------------------------------- os.open / os.fdopen
    O_RDONLY, O_WRONLY, O_RDWR, O_CREAT, O_EXCL, O_TRUNC, O_APPEND = 0, 1, 2, 64, 128, 512, 1024

    def os_open(self, path, flags, mode=0o777):
        path = self.follow(path)
        post = self._point("open", path)
        ino = self.files.get(path)
        if ino is None:
            if not flags & self.O_CREAT:
                raise FileNotFoundError(errno.ENOENT, "No such file or directory", path)
            if posixpath.dirname(path) not in self.dirs:
                raise FileNotFoundError(errno.ENOENT, "No such file or directory", path)
            if posixpath.dirname(path) in self.readonly:
                raise PermissionError(errno.EACCES, "Permission denied", path)
            ino = Inode()
            self.files[path] = ino
            self.journal.append(("link", path, ino))
        elif flags & self.O_CREAT and flags & self.O_EXCL:
            raise FileExistsError(errno.EEXIST, "File exists", path)
        if flags & self.O_TRUNC:
            ino.cache = b""
        fd = self.next_fd
        self.next_fd += 1
        self.raw_fds[fd] = (path, ino, flags)
        self._after(post, "open")
        return fd

    def fdopen(self, fd, mode="r", buffering=-1, encoding=None, errors=None, newline=None):
        path, ino, flags = self.raw_fds.pop(fd)
        if "r" in mode and "+" not in mode:
            raw = io.BytesIO(ino.cache)
            return raw if "b" in mode else io.TextIOWrapper(raw, encoding=encoding or "utf-8", errors=errors, newline=newline)
        pos = len(ino.cache) if (flags & self.O_APPEND or "a" in mode) else 0
        return SimWriteFile(self, path, ino, "b" in mode, encoding or "utf-8", fd=fd, pos=pos)

    def os_close(self, fd):
        self.raw_fds.pop(fd, None)
        fobj = self.fds.get(fd)
        if fobj is not None:
            fobj.close()

    def getsize(self, path):
        ino = self.files.get(self.follow(path))
        if ino is None:
            raise FileNotFoundError(errno.ENOENT, "No such file or directory", path)
        return len(ino.cache)

    # ----------------------------------------------------------------- crash
    def crash(self, mode="strict", journal_keep=None, data_mode="kept", cut=0.5):
        """Resolve the on-disk state after the process died and return a new SimFS.

        mode strict: process death only; the OS cache survives, user-space buffers do not.
        mode powerloss: fsynced data survives; for every inode whose cache differs from
        its durable content ``data_mode`` decides (kept | dropped | prefix | zerofill);
        the first ``journal_keep`` uncommitted directory operations survive.
        """
        new = SimFS(self.bufsize, self.cwd)
        new.dirs = set(self.dirs)
        new.readonly = set(self.readonly)
        new.unreadable = set(self.unreadable)
        if mode == "strict":
            view = dict(self.files)
            content = {ino.ino: ino.cache for ino in view.values()}
        else:
            view = dict(self.durable_files)
            ops = self.journal if journal_keep is None else self.journal[:journal_keep]
            for op in ops:
                if op[0] == "link":
                    view[op[1]] = op[2]
                elif op[0] == "unlink":
                    view.pop(op[1], None)
                elif op[0] == "rename":
                    if op[1] in view:
                        view[op[2]] = view.pop(op[1])
            content = {}
            for ino in view.values():
                dur = ino.durable if ino.durable is not None else b""
                if ino.cache == dur or data_mode == "kept":
                    content[ino.ino] = ino.cache if data_mode == "kept" else dur
                elif data_mode == "dropped":
                    content[ino.ino] = dur
                elif data_mode == "prefix":
                    k = int(len(ino.cache) * cut)
                    content[ino.ino] = ino.cache[:k]
                else:  # zerofill
                    k = int(len(ino.cache) * cut)
                    content[ino.ino] = ino.cache[:k] + b"\0" * (len(ino.cache) - k)
        for path, ino in view.items():
            fresh = Inode()
            fresh.cache = content[ino.ino]
            fresh.durable = fresh.cache
            fresh.link = ino.link
            new.files[path] = fresh
            new.durable_files[path] = fresh
        return new


class SimWriteFile:
    """File object returned for write modes."""

    def __init__(self, fs, path, inode, binary, encoding, fd=None, pos=0):
        self.fs = fs
        self.path = path
        self.name = path
        self.inode = inode
        self.binary = binary
        self.encoding = encoding
        self.buf = bytearray()
        self.closed = False
        self.pos = pos  # file offset of the next OS-level write (os.open without O_TRUNC overwrites in place)
        if fd is None:
            fd = fs.next_fd
            fs.next_fd += 1
        self.fd = fd
        fs.fds[self.fd] = self
        self.mode = "wb" if binary else "w"

    def __enter__(self):
        return self

    def __exit__(self, *exc):
        # like io objects: close on exit even when an exception is propagating,
        # but a Crash must not touch the disk any more
        if exc and exc[0] is not None and issubclass(exc[0], Crash):
            self.closed = True
            self.fs.fds.pop(self.fd, None)
            return False
        self.close()
        return False

    def fileno(self):
        if self.closed:
            raise ValueError("I/O operation on closed file")
        return self.fd

    def writable(self):
        return True

    def _os_write(self, opname):
        """Push the user-space buffer to the OS cache (one fault point)."""
        if not self.buf:
            return
        post = self.fs._point(opname, self.path)
        data = bytes(self.buf)
        if post == "ENOSPC":
            keep = len(data) // 2
            self._put(data[:keep])
            del self.buf[:keep]
            raise OSError(errno.ENOSPC, "No space left on device (simulated)")
        self._put(data)
        del self.buf[:]
        self.fs._after(post, opname)

    def _put(self, data):
        cache = self.inode.cache
        self.inode.cache = cache[:self.pos] + data + cache[self.pos + len(data):]
        self.pos += len(data)

    def write(self, data):
        if self.closed:
            raise ValueError("I/O operation on closed file")
        if self.binary:
            raw = bytes(data)
        else:
            if not isinstance(data, str):
                raise TypeError("write() argument must be str")
            raw = data.encode(self.encoding)
        self.buf.extend(raw)
        if len(self.buf) >= self.fs.bufsize:
            self._os_write("write")
        return len(data)

    def flush(self):
        if self.closed:
            raise ValueError("I/O operation on closed file")
        if self.buf:
            self._os_write("flush")
        else:
            post = self.fs._point("flush", self.path)
            if post == "ENOSPC":
                post = None
            self.fs._after(post, "flush")

    def close(self):
        if self.closed:
            return
        try:
            if self.buf:
                self._os_write("close")
            else:
                post = self.fs._point("close", self.path)
                if post == "ENOSPC":
                    post = None
                self.fs._after(post, "close")
        finally:
            self.closed = True
            self.fs.fds.pop(self.fd, None)


class _PathShim:
    def __init__(self, fs):
        self._fs = fs
        self.dirname = posixpath.dirname
        self.basename = posixpath.basename
        self.splitext = posixpath.splitext
        self.join = posixpath.join
        self.sep = "/"

    def realpath(self, path):
        return self._fs.norm(path)

    abspath = realpath

    def isfile(self, path):
        return self._fs.isfile(path)

    def exists(self, path):
        return self._fs.exists(path)


class OsShim:
    """Stands in for ``os`` inside mysensors.persistence / mysensors.ota."""

    R_OK = 4
    W_OK = 2
    X_OK = 1
    F_OK = 0

    def __init__(self, fs):
        self._fs = fs
        self.path = _PathShim(fs)

    def access(self, path, mode):
        return self._fs.access(path, mode)

    def rename(self, src, dst):
        return self._fs.rename(src, dst)

    def replace(self, src, dst):
        return self._fs.rename(src, dst)

    def remove(self, path):
        return self._fs.remove(path)

    unlink = remove

    def fsync(self, fd):
        return self._fs.fsync(fd)

    def getcwd(self):
        return self._fs.cwd


class FsHolder:
    """Indirection so the module-level shims installed once per process always
    reach the file system of the run that is active."""

    fs = None

    @classmethod
    def open(cls, *args, **kwargs):
        return cls.fs.open(*args, **kwargs)


class _DynPath:
    dirname = staticmethod(posixpath.dirname)
    basename = staticmethod(posixpath.basename)
    splitext = staticmethod(posixpath.splitext)
    join = staticmethod(posixpath.join)
    sep = "/"

    @staticmethod
    def realpath(path):
        return FsHolder.fs.realpath(path)

    @staticmethod
    def abspath(path):
        return FsHolder.fs.norm(path)

    @staticmethod
    def islink(path):
        return FsHolder.fs.islink(path)

    @staticmethod
    def isfile(path):
        return FsHolder.fs.isfile(path)

    @staticmethod
    def exists(path):
        return FsHolder.fs.exists(path)

    @staticmethod
    def getsize(path):
        return FsHolder.fs.getsize(path)

    @staticmethod
    def isdir(path):
        return str(path) != "" and FsHolder.fs.norm(path) in FsHolder.fs.dirs

    @staticmethod
    def isabs(path):
        return str(path).startswith("/")

    @staticmethod
    def normpath(path):
        return posixpath.normpath(path)

    @staticmethod
    def expanduser(path):
        return path

    @staticmethod
    def islink(path):
        return False


class DynOsShim:
    """Process-wide ``os`` stand-in delegating to FsHolder.fs."""

    R_OK = 4
    W_OK = 2
    X_OK = 1
    F_OK = 0
    path = _DynPath

    @staticmethod
    def access(path, mode):
        return FsHolder.fs.access(path, mode)

    @staticmethod
    def rename(src, dst):
        return FsHolder.fs.rename(src, dst)

    replace = rename

    @staticmethod
    def link(src, dst):
        return FsHolder.fs.link(src, dst)

    @staticmethod
    def remove(path):
        return FsHolder.fs.remove(path)

    unlink = remove

    @staticmethod
    def fsync(fd):
        return FsHolder.fs.fsync(fd)

    @staticmethod
    def getcwd():
        return FsHolder.fs.cwd

    @staticmethod
    def symlink(target, path):
        return FsHolder.fs.symlink(target, path)

    @staticmethod
    def readlink(path):
        ino = FsHolder.fs.files.get(FsHolder.fs.norm(path))
        if ino is None or ino.link is None:
            raise OSError(errno.EINVAL, "Invalid argument", path)
        return ino.link

    O_RDONLY, O_WRONLY, O_RDWR, O_CREAT, O_EXCL, O_TRUNC, O_APPEND = 0, 1, 2, 64, 128, 512, 1024
    sep = "/"
    linesep = "\n"
    name = "posix"
    error = OSError

    @staticmethod
    def open(path, flags, mode=0o777):
        return FsHolder.fs.os_open(path, flags, mode)

    @staticmethod
    def fdopen(fd, *args, **kwargs):
        return FsHolder.fs.fdopen(fd, *args, **kwargs)

    @staticmethod
    def close(fd):
        return FsHolder.fs.os_close(fd)

    @staticmethod
    def makedirs(path, mode=0o777, exist_ok=False):
        FsHolder.fs.mkdir(path)

    @staticmethod
    def chmod(path, mode):
        return None

    @staticmethod
    def listdir(path="."):
        base = FsHolder.fs.norm(path)
        return sorted(p[len(base) + 1:] for p in FsHolder.fs.files if posixpath.dirname(p) == base)

    @staticmethod
    def fspath(path):
        return str(path)
