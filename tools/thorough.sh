#!/bin/sh
# Every thorough tier, one after the other (hours).  usage: tools/thorough.sh [seed] [check ids...]
cd "$(dirname "$0")/.." || exit 2
SEED="${1:-20260928}"
shift 2>/dev/null
CHECKS="${*:-C01 C04 C05 C06 C07 C08 C09 C10 C11 C12 C13 C14 C15 C16 C17 C18 C19 C20}"
fail=0
for c in $CHECKS; do
  out=$(VERIF_SEED=$SEED timeout 4000 ./check "$c" --tier thorough 2>&1)
  rc=$?
  echo "rc=$rc $(echo "$out" | grep -E "^$c tier=" | tail -1)"
  if [ $rc -ne 0 ]; then fail=1; echo "$out" | grep -E "VIOLATION|HARNESS|detail:|COVERAGE" | cut -c1-700; mkdir -p /tmp/thorough_replays; cp replays/"$c"-*.json /tmp/thorough_replays/ 2>/dev/null; fi
done
exit $fail
