"""Static text of MANIFEST.json (see tools/gen_manifest.py)."""

SETUP_CMD = "./check selftest --tier quick"
HOOKS = {
    "guard": "PYMYSENSORS_VERIF",
    "enable": "no source hooks exist: every seam is a module global of mysensors/* or serial.threaded that /verif/sim/world.py rebinds at run time; checks import mysensors from /repo's working tree",
    "baseline_off_cmd": "cd /repo && /venv/bin/python -m pytest -ra -q -p no:cacheprovider --timeout=900 --continue-on-collection-errors",
    "source_commits": [],
    "add_only": True,
}
NOTES = ("Deterministic simulation with fault injection (DESIGN.md). ./check <id> --tier quick|thorough; VERIF_SEED selects the batch; "
         "every violation is minimised, written to /verif/replays/<id>-<seed>.json and re-executed in a fresh interpreter before the "
         "VIOLATION line is printed. Fixed defects of the repository are listed in known_findings.json with their replay files under findings/.")

_NET_NOTE = ("Trusted base: the simulator kernel and fakes under /verif/sim, the reference model under /verif/model (tier-A tables cross-checked "
             "once against the repo), CPython. The OS (threads, clock, serial/socket/asyncio transports, MQTT broker, disk) is stubbed; all of "
             "mysensors/* and serial.threaded run as shipped. Sampling, not proof.")

CHECKS = {
    "C01": {"category": "exploration", "design_ref": "DESIGN.md 5/C01",
            "technique": "deterministic simulation: seeded histories with hostile lines and controller calls against the real pump, liveness probes, snapshot equality",
            "text": "Seeded search over simulated histories (all six gateway flavours, all versions) with hostile input and liveness probes; detects any exception that escapes message processing, a dead pump/reader/loop, and any effect of a rejected line. Exploration is the right level: the failing combinations are (state x sub-type x payload) triples reachable only through histories.",
            "note": _NET_NOTE},
    "C04": {"category": "exploration", "design_ref": "DESIGN.md 5/C04",
            "technique": "deterministic simulation: lock-step refinement check of gateway state and callbacks against a sequential reference model",
            "text": "Every step of every simulated history is compared with an independent sequential model (node/child/value tree, callback count, arguments, state visible inside the callback), incl. raising callbacks.",
            "note": _NET_NOTE},
    "C05": {"category": "exploration", "design_ref": "DESIGN.md 5/C05",
            "technique": "deterministic simulation: per-line reply prescription from the reference model on a simulated clock; independent re-validation of every emitted line",
            "text": "Per processed line the bytes written to the simulated device must equal the model's prescribed replies (time replies against the simulated clock with drawn epoch/offset/jumps); every emitted line is re-decoded and validated by the independent tier-A tables.",
            "note": _NET_NOTE},
    "C06": {"category": "exploration", "design_ref": "DESIGN.md 5/C06",
            "technique": "deterministic simulation: allocation-history oracle across simulated process lifetimes (save timer on the simulated clock, clean stop/restart on SimFS)",
            "text": "History check over every id response across 1-4 process lifetimes sharing one simulated disk, with the periodic save timer firing at drawn simulated times.",
            "note": _NET_NOTE},
    "C08": {"category": "exploration", "design_ref": "DESIGN.md 5/C08",
            "technique": "deterministic simulation: burst-per-wake-up oracle (exactly-once, order) from the reference model over smart-sleep histories",
            "text": "At every simulated wake-up the burst is compared with the model: held replies as a sequence, desired values as a multiset, re-sent until confirmed; accepted desired values must be deliverable.",
            "note": _NET_NOTE},
    "C10": {"category": "exploration", "design_ref": "DESIGN.md 5/C10",
            "technique": "deterministic simulation: reference session automaton in lock-step over adversarial OTA histories",
            "text": "Reference automaton per node (idle/requested/offered/fetching, reboot flag) checked against every reply of the real gateway under adversarial request interleavings and malformed requests.",
            "note": _NET_NOTE},
}

_DISK_NOTE = ("Trusted base: SimFS (/verif/sim/fs.py) as the file-system model - ordered-metadata journal, fsync commits earlier directory "
              "operations, atomic rename, user-space write buffer lost by any crash - plus the kernel and CPython. mysensors.persistence, "
              "pickle and json run as shipped. A real file system that reorders directory operations is outside the result.")

CHECKS.update({
    "C11": {"category": "exploration", "design_ref": "DESIGN.md 5/C11",
            "technique": "deterministic simulation: differential pair (pickle vs json) of one simulated history with clean stop/restart rounds on SimFS, compared with the reference model",
            "text": "The same simulated history runs with both file formats, each with two clean stop/restart rounds; loaded state must equal the pre-stop state, the model and the other format; transient smart-sleep/OTA state must not be resurrected.",
            "note": _NET_NOTE + " " + _DISK_NOTE},
    "C12": {"category": "fault_enumeration", "design_ref": "DESIGN.md 5/C12",
            "technique": "deterministic simulation with fault injection: one crash or failing operation at a drawn file-system operation of a save on SimFS, crash-state resolution (process death / power loss), load by a fresh gateway",
            "text": "Fault enumeration over the numbered file-system operations of one save x fault kind x crash resolution, sampled by seed over many states and prior on-disk configurations; the surviving disk is loaded by a fresh gateway and must give exactly the old or the new state.",
            "note": _DISK_NOTE},
    "C13": {"category": "fault_enumeration", "design_ref": "DESIGN.md 5/C13",
            "technique": "deterministic simulation with fault injection: torn/zero-filled/missing persistence files on SimFS at drawn offsets, start-up of threaded and asyncio gateways under the kernel",
            "text": "Files written by the real save code are damaged at drawn offsets (truncate, zero-fill, empty, missing) in combination with backup states; start_persistence() of threaded and asyncio gateways must return normally with the backup's state or empty.",
            "note": _DISK_NOTE},
    "C14": {"category": "exploration", "design_ref": "DESIGN.md 5/C14",
            "technique": "deterministic simulation: histories with save-timer ticks at drawn simulated times, clean stop, restart on the same SimFS, projection equality",
            "text": "Histories over every handler kind with the 10 s save timer firing at drawn simulated times, ended by stop(); a fresh gateway on the same simulated disk must reproduce the pre-stop state.",
            "note": _NET_NOTE + " " + _DISK_NOTE},
})

CHECKS.update({
    "C16": {"category": "exploration", "design_ref": "DESIGN.md 5/C16",
            "technique": "deterministic simulation: real poll/reader/connect threads under a baton scheduler with seeded line-granular pre-emption (PCT / random walk) inside the send/teardown window; write-log oracle",
            "text": "Seeded schedule search (bounded pre-emptions at source-line events inside the send / connection-lost / disconnect window, plus every blocking primitive) over one sender vs. a teardown event and several producers vs. the pump; oracle on the fake devices' write log and on thread deaths.",
            "note": "Trusted base: kernel (baton passing, sys.settrace pre-emption points, SimLock/SimEvent), fake serial/socket. Pre-emption granularity is a Python source line; C-level sections are atomic under the GIL. Sampling of schedules, not enumeration."},
    "C18": {"category": "exploration", "design_ref": "DESIGN.md 5/C18",
            "technique": "deterministic simulation as instrument: configuration swarm over constructor options observed through the simulated devices, clock, disk and broker; version-floor panel against an independent rule",
            "text": "Partly a simulation target (weakest fit, see DESIGN.md): the property quantifies over configurations; the simulated world shows each option taking effect (factory arguments, reconnect and probe spacing on the simulated clock, file on SimFS, topic prefixes/retain) and the version floor is checked on a frame panel for a grid of version strings.",
            "note": "Samples the configuration grid; the version-string grid (4x13x5 + specials) is covered by the thorough tier. Bare integer 2 and strings like 'v2.0' are left unchecked as the statement does not fix their meaning."},
})

CHECKS.update({
    "C20": {"category": "exploration", "design_ref": "DESIGN.md 5/C20",
            "technique": "deterministic simulation with fault injection: scripted device fault sequences and probe-latency patterns on a simulated clock against real connect loops, reader threads / asyncio protocols; history oracle over attempt, connection and callback logs",
            "text": "Seeded fault sequences (connect failures of three kinds, read/write errors, peer close/reset, disconnect, stop) and TCP probe-latency patterns on the simulated clock for all four device flavours; the oracle counts callbacks per established/lost connection, checks reconnect spacing, silence after stop() and both sides of the watchdog timing.",
            "note": "Trusted base: kernel, fake serial/socket/select, SimLoop and the asyncio transport stubs (documented callback contract). Timing bounds carry +-5% + 60 ms slack; the asyncio watchdog bound is 3 rt + 0.5 (it looks once per rt + 0.1 s). Transport.disconnect() outside stop() is observed as a probe only."},
})

CHECKS.update({
    "C15": {"category": "exploration", "design_ref": "DESIGN.md 5/C15",
            "technique": "deterministic simulation with fault injection: transient I/O faults at drawn operations of drawn scheduled saves on SimFS plus seeded line-granular pre-emption of the saving thread against the pump/loop; bounded-liveness oracle on the simulated clock",
            "text": "Real Timer chain (threaded) and save task + executor thread (asyncio) on the simulated clock with transient EIO/ENOSPC/EACCES at drawn file operations and traffic injected at the instant a save starts under pre-emptive schedules; checks that the schedule survives, the old file stays loadable, the dirty flag is kept, and that 25 simulated seconds after faults stop the disk equals the current state.",
            "note": "Trusted base: kernel, SimTimer, SimLoop/executor threads, SimFS. Save calls are observed through a class-level wrapper of Persistence.save_sensors installed by the harness (no repo change). Pre-emption granularity: Python lines in mysensors/* and json/encoder.py; the C pickler is atomic between __getstate__ calls."},
})

CHECKS.update({
    "C19": {"category": "exploration", "design_ref": "DESIGN.md 5/C19",
            "technique": "deterministic simulation, differential: one byte stream executed under drawn segmentations, gateway flavours and seeded reader/pump schedules; final state and ordered transport log compared with a reference execution",
            "text": "One simulated byte stream is replayed through threaded and asyncio serial/TCP gateways with drawn chunk boundaries (incl. inside UTF-8 sequences and between CR and LF) and drawn reader/pump schedules; every execution must end in the reference execution's state and emitted command sequence.",
            "note": "Trusted base: kernel, fake devices (socket reads capped at 120 bytes as the library asks), asyncio transport stubs. Time-reply payloads and TCP watchdog probes are normalised (clock driven). Sampling of streams, segmentations and schedules."},
})

CHECKS.update({
    "C07": {"category": "exploration", "design_ref": "DESIGN.md 5/C07",
            "technique": "deterministic simulation: multi-line chunks and seeded reader/pump schedules; every write attributed to the line being processed through begin-markers, compared with the model's per-wake-up bursts",
            "text": "Smart-sleep histories delivered in multi-line chunks under serial, random-walk and PCT reader/pump schedules (threaded) and on the asyncio loop; each write is attributed to the line being processed; traffic for a sleeping node may only appear in the burst of one of its wake-ups, replies for awake nodes before the next line is processed.",
            "note": _NET_NOTE},
    "C09": {"category": "exploration", "design_ref": "DESIGN.md 5/C09",
            "technique": "deterministic simulation with fault injection: simulated bootloader peers over a link that drops, duplicates and delays frames on the simulated clock; independent CRC-16/MODBUS and reassembly at the peer; bounded-liveness check after faults stop",
            "text": "Simulated MYSBootloader peers fetch images (bytes or Intel-HEX via SimFS) from the real gateway over a lossy, duplicating, delaying link with retries on the simulated clock; the peer reassembles, compares every copy of every block, checks padding/length and its own bitwise CRC against the advertised one, and must finish within a bound once faults stop.",
            "note": "Trusted base: kernel, link/peer simulation in checks/C09.py, own CRC and HEX writer in model/ota_model.py. Image sizes <= 2 KiB in the quick tier (boundary lengths), up to 32 KiB in 4% of thorough runs."},
    "C17": {"category": "exploration", "design_ref": "DESIGN.md 5/C17",
            "technique": "deterministic simulation: simulated MQTT broker with foreign traffic, duplicate deliveries and raising callbacks; prefix configuration swarm; loop-back of every publication through a second passive gateway",
            "text": "Partly a simulation target: prefixes are sampled through run configurations (incl. digit-only and message-like ones); the simulated broker delivers own and foreign topics, duplicates, and raises from publish/subscribe callbacks; acceptance is judged by the model splitting levels, subscriptions by wildcard matching, publications by loop-back through a passive twin.",
            "note": "Samples the prefix x topic space, does not decide it over all strings. Topics whose five levels are not a message header are only checked for 'recv() does not raise'. A subscribe call that raised is exempt from the coverage requirement."},
})

NOT_APPLICABLE = {
    "C02": "pure function of its arguments (Message.decode/encode/copy): no schedule, clock, I/O, fault or history can change the result, so deterministic simulation has nothing to decide (DESIGN.md section 6)",
    "C03": "acceptance is a pure function of (version, line); an exhaustive header x payload-class product is table enumeration, not a search over schedules or faults (DESIGN.md section 6)",
}
