#!/bin/sh
# Quiet-on-the-unchanged-tree sweep: every quick check under several VERIF_SEEDs must exit 0.
# usage: tools/quiet.sh "seed1 seed2 ..." [check ids...]
cd "$(dirname "$0")/.." || exit 2
SEEDS="${1:-101 102 103 104 105}"
shift 2>/dev/null
CHECKS="${*:-C01 C04 C05 C06 C07 C08 C09 C10 C11 C12 C13 C14 C15 C16 C17 C18 C19 C20}"
fail=0
for s in $SEEDS; do
  for c in $CHECKS; do
    out=$(VERIF_SEED=$s timeout 900 ./check "$c" --tier quick 2>&1)
    rc=$?
    line=$(echo "$out" | grep -E "^$c tier=" | tail -1)
    echo "seed=$s rc=$rc $line"
    if [ $rc -ne 0 ]; then fail=1; echo "$out" | grep -E "VIOLATION|HARNESS|detail:" | cut -c1-600; mkdir -p /tmp/quiet_replays; cp replays/"$c"-*.json /tmp/quiet_replays/ 2>/dev/null; fi
  done
done
exit $fail
