#!/venv/bin/python
"""Re-run the quick checks against every stored seeded change, in parallel, on scratch copies of /repo.

usage: tools/reeval.py [--jobs 3] [--seed 20260927] [ids ...]      (default: every directory under seeded/)

For each seeded/<id>: copy /repo's working tree (without .git) to /tmp/reeval_<id>, apply patch.diff there, run the
check(s) named in meta.json's detected_by (falling back to the property's own check) with VERIF_REPO pointing at the
copy (no evidence written, replays into the scratch directory), remove the copy.  /repo itself is never touched.
Prints one line per change and writes seeded/reeval.json (a run with explicit ids updates the stored table).  Exit 1 if any change is no longer caught.
"""
import argparse
import concurrent.futures as cf
import json
import os
import shutil
import subprocess
import sys
import time

VERIF = os.path.dirname(os.path.dirname(os.path.abspath(__file__)))


def one(sid, seed):
    sdir = os.path.join(VERIF, "seeded", sid)
    meta = json.load(open(os.path.join(sdir, "meta.json"), encoding="utf-8"))
    if meta.get("obsolete"):
        return {"id": sid, "checks": {}, "caught": True, "obsolete": True}
    if meta.get("outside_statement"):
        return {"id": sid, "checks": {}, "caught": True, "outside_statement": True}  # kept for the record, nothing to catch
    checks = meta.get("detected_by") or [meta["property"]]
    tmp = f"/tmp/reeval_{sid}"
    shutil.rmtree(tmp, ignore_errors=True)
    shutil.copytree("/repo", tmp, ignore=shutil.ignore_patterns(".git", "__pycache__", ".pytest_cache", "*.egg-info"))
    res = {"id": sid, "checks": {}, "caught": False}
    try:
        out = subprocess.run(["git", "apply", "--whitespace=nowarn", os.path.join(sdir, "patch.diff")], cwd=tmp, capture_output=True, text=True, check=False)
        if out.returncode != 0:
            res["error"] = "patch does not apply: " + out.stderr[-300:]
            return res
        env = dict(os.environ, VERIF_REPO=tmp, VERIF_NO_EVIDENCE="1", VERIF_REPLAY_DIR=os.path.join(tmp, "replays"), VERIF_SEED=str(seed))
        for chk in checks:
            t0 = time.time()
            run = subprocess.run([os.path.join(VERIF, "check"), chk, "--tier", "quick"], cwd=VERIF, env=env, capture_output=True, text=True,
                                 timeout=1500, check=False)
            hit = run.returncode == 1 and f"VIOLATION property={chk}" in run.stdout
            res["checks"][chk] = {"rc": run.returncode, "caught": hit, "wall_s": round(time.time() - t0, 1)}
            if hit:
                res["caught"] = True
                break
    finally:
        shutil.rmtree(tmp, ignore_errors=True)
    return res


def main():
    ap = argparse.ArgumentParser()
    ap.add_argument("--jobs", type=int, default=3)
    ap.add_argument("--seed", type=int, default=20260927)
    ap.add_argument("ids", nargs="*")
    args = ap.parse_args()
    ids = args.ids or sorted(d for d in os.listdir(os.path.join(VERIF, "seeded")) if os.path.isfile(os.path.join(VERIF, "seeded", d, "patch.diff")))
    results = []
    with cf.ThreadPoolExecutor(max_workers=args.jobs) as pool:
        for res in pool.map(lambda s: one(s, args.seed), ids):
            results.append(res)
            print(res["id"], "CAUGHT" if res["caught"] else "MISSED", json.dumps(res["checks"]), res.get("error", ""), flush=True)
    missed = [r["id"] for r in results if not r["caught"]]
    path = os.path.join(VERIF, "seeded", "reeval.json")
    merged = {}
    if args.ids and os.path.exists(path):
        # a partial run updates the stored table instead of replacing it
        try:
            with open(path, encoding="utf-8") as fh:
                merged = {r["id"]: r for r in json.load(fh).get("results", [])}
        except (ValueError, KeyError, TypeError):
            merged = {}
    for res in results:
        merged[res["id"]] = res
    rows = [merged[k] for k in sorted(merged)]
    with open(path, "w", encoding="utf-8") as fh:
        json.dump({"seed": args.seed, "n": len(rows), "missed": [r["id"] for r in rows if not r["caught"]], "results": rows}, fh, indent=1)
    print(f"reeval: {len(results) - len(missed)}/{len(results)} caught; missed: {missed}")
    return 1 if missed else 0


if __name__ == "__main__":
    sys.exit(main())
