#!/venv/bin/python
"""Confirm a seeded change and run the checks against it.

usage: tools/eval_seed.py <seed dir with patch.diff + demo*.py> <property id> [--checks C01,C05] [--tier quick] [--seeds 1,2]

1. In a scratch worktree of /repo (outside /repo and /verif, removed afterwards): the patch applies, the
   pinned test suite still passes, the demonstration fails with the patch and passes without it.
2. The patch is applied to a scratch copy of /repo's working tree (outside /repo and /verif, removed afterwards) and the
   chosen checks run against it (VERIF_REPO); with --in-repo it is applied to /repo itself instead and the tree is
   restored with `git -C /repo checkout -- .` straight afterwards (also on error).
Writes <seed dir>/meta.json.
"""
import argparse
import glob
import json
import os
import subprocess
import sys
import time

VERIF = os.path.dirname(os.path.dirname(os.path.abspath(__file__)))
REPO = "/repo"
PY = "/venv/bin/python"


def sh(cmd, cwd=None, timeout=1200, env=None):
    out = subprocess.run(cmd, cwd=cwd, shell=isinstance(cmd, str), capture_output=True, text=True, timeout=timeout, env=env, check=False)
    return out.returncode, out.stdout + out.stderr


def main():
    ap = argparse.ArgumentParser()
    ap.add_argument("seed_dir")
    ap.add_argument("prop")
    ap.add_argument("--checks", default=None)
    ap.add_argument("--tier", default="quick")
    ap.add_argument("--seeds", default="20260927")
    ap.add_argument("--skip-confirm", action="store_true")
    ap.add_argument("--in-repo", action="store_true", help="apply the patch to /repo itself (reverted afterwards) instead of a scratch copy")
    args = ap.parse_args()
    seed_dir = os.path.abspath(args.seed_dir)
    patch = os.path.join(seed_dir, "patch.diff")
    demos = sorted(glob.glob(os.path.join(seed_dir, "demo*.py")))
    meta = {"property": args.prop, "patch": "patch.diff", "demo": [os.path.basename(d) for d in demos], "ran": []}
    # ---------------------------------------------------------------- 1. confirm in a scratch worktree
    if not args.skip_confirm:
        wt = f"/tmp/wt_eval_{os.getpid()}"
        sh(["git", "-C", REPO, "worktree", "remove", "--force", wt])
        rc, out = sh(["git", "-C", REPO, "worktree", "add", "--detach", wt, "HEAD"])
        assert rc == 0, out
        try:
            rc, out = sh(["git", "-C", wt, "apply", "--whitespace=nowarn", patch])
            meta["applies"] = rc == 0
            if rc != 0:
                meta["apply_error"] = out[-500:]
            else:
                rc, out = sh(f"{PY} -m pytest -q -p no:cacheprovider -x 2>&1 | tail -3", cwd=wt)
                meta["tests_with_patch"] = out.strip().splitlines()[-1] if out.strip() else ""
                meta["tests_pass_with_patch"] = "730 passed" in out
                res = {}
                for demo in demos:
                    if os.path.basename(demo).startswith("demo_test") or "def test_" in open(demo, encoding="utf-8").read() and "__main__" not in open(demo, encoding="utf-8").read():
                        rc1, o1 = sh(f"cd {wt} && {PY} -m pytest -q -p no:cacheprovider {demo} 2>&1 | tail -3", timeout=300)
                    else:
                        rc1, o1 = sh([PY, demo, wt], cwd=seed_dir, timeout=300)
                    res[os.path.basename(demo)] = {"with_patch_rc": rc1, "with_patch_tail": o1[-300:]}
                sh(["git", "-C", wt, "checkout", "--", "."])
                for demo in demos:
                    if os.path.basename(demo).startswith("demo_test") or "def test_" in open(demo, encoding="utf-8").read() and "__main__" not in open(demo, encoding="utf-8").read():
                        rc2, o2 = sh(f"cd {wt} && {PY} -m pytest -q -p no:cacheprovider {demo} 2>&1 | tail -3", timeout=300)
                    else:
                        rc2, o2 = sh([PY, demo, wt], cwd=seed_dir, timeout=300)
                    res[os.path.basename(demo)]["without_patch_rc"] = rc2
                meta["demo_results"] = res
                meta["demo_confirms"] = bool(res) and all(r["with_patch_rc"] != 0 and r["without_patch_rc"] == 0 for r in res.values())
        finally:
            sh(["git", "-C", REPO, "worktree", "remove", "--force", wt])
            sh(["rm", "-rf", wt])
    # ---------------------------------------------------------------- 2. run the checks against it
    checks = (args.checks or args.prop).split(",")
    scratch = None
    if args.in_repo:
        rc, status = sh(["git", "-C", REPO, "status", "--porcelain"])
        assert status.strip() == "", "refusing: /repo working tree is not clean:\n" + status
        rc, out = sh(["git", "-C", REPO, "apply", "--whitespace=nowarn", patch])
        assert rc == 0, out
        base_env = dict(os.environ)
    else:
        # default: a scratch copy of /repo's working tree (outside /repo and /verif, removed afterwards); the checks
        # are pointed at it with VERIF_REPO, write no evidence and keep their replays in the scratch directory
        import shutil  # pylint: disable=import-outside-toplevel
        scratch = f"/tmp/evalrepo_{os.getpid()}"
        shutil.rmtree(scratch, ignore_errors=True)
        shutil.copytree(REPO, scratch, ignore=shutil.ignore_patterns(".git", "__pycache__", ".pytest_cache", "*.egg-info"))
        rc, out = sh(["git", "apply", "--whitespace=nowarn", patch], cwd=scratch)
        assert rc == 0, out
        base_env = dict(os.environ, VERIF_REPO=scratch, VERIF_NO_EVIDENCE="1", VERIF_REPLAY_DIR=os.path.join(scratch, "replays"))
    detected = {}
    try:
        for chk in checks:
            for seed in args.seeds.split(","):
                t0 = time.time()
                env = dict(base_env, VERIF_SEED=seed)
                rc, out = sh([os.path.join(VERIF, "check"), chk, "--tier", args.tier], cwd=VERIF, env=env, timeout=3600)
                lines = [l for l in out.splitlines() if l.startswith(("VIOLATION", "violation class", "HARNESS-ERROR", chk + " tier="))]
                entry = {"check": chk, "seed": int(seed), "tier": args.tier, "rc": rc, "wall_s": round(time.time() - t0, 1), "lines": [l[:300] for l in lines][:6]}
                meta["ran"].append(entry)
                detected.setdefault(chk, False)
                if rc == 1 and any(l.startswith("VIOLATION") for l in lines):
                    detected[chk] = True
                    break
    finally:
        if args.in_repo:
            sh(["git", "-C", REPO, "checkout", "--", "."])
        else:
            sh(["rm", "-rf", scratch])
    if args.in_repo:
        rc, status = sh(["git", "-C", REPO, "status", "--porcelain"])
        assert status.strip() == "", status
    meta["detected_by"] = sorted(k for k, v in detected.items() if v)
    meta["missed_by"] = sorted(k for k, v in detected.items() if not v)
    old = {}
    mpath = os.path.join(seed_dir, "meta.json")
    if os.path.exists(mpath):
        with open(mpath, encoding="utf-8") as fh:
            old = json.load(fh)
    for key in ("needs", "what", "origin", "missed_at_first_then_strengthened"):
        if key in old and key not in meta:
            meta[key] = old[key]
    if args.skip_confirm:
        for key in ("applies", "tests_with_patch", "tests_pass_with_patch", "demo_results", "demo_confirms"):
            if key in old:
                meta[key] = old[key]
    with open(mpath, "w", encoding="utf-8") as fh:
        json.dump(meta, fh, indent=1)
    print(json.dumps({k: meta.get(k) for k in ("applies", "tests_pass_with_patch", "demo_confirms", "detected_by", "missed_by")}))
    return 0


if __name__ == "__main__":
    sys.exit(main())
