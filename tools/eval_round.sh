#!/bin/sh
# Collect seeded changes from /tmp/<prefix>_<prop>/<prop>_<k>/ into /verif/seeded and evaluate each against its property.
# usage: tools/eval_round.sh <prefix e.g. seed2> <prop> [extra eval_seed args]
cd "$(dirname "$0")/.." || exit 2
prefix=$1; prop=$2; shift 2
for d in /tmp/${prefix}_${prop}/${prop}_*; do
  [ -d "$d" ] || continue
  n=$(basename "$d")
  mkdir -p "seeded/$n"
  cp "$d"/patch.diff "seeded/$n/" 2>/dev/null
  cp "$d"/demo*.py "seeded/$n/" 2>/dev/null
  cp "$d"/notes.md "seeded/$n/" 2>/dev/null
  echo "== $n"
  timeout 1500 /venv/bin/python tools/eval_seed.py "seeded/$n" "$prop" "$@"
done
