#!/venv/bin/python
"""Regenerate /verif/MANIFEST.json from tools/manifest_data.py (run from /verif)."""
import json
import os
import sys

VERIF = os.path.dirname(os.path.dirname(os.path.abspath(__file__)))
sys.path.insert(0, VERIF)
from tools import manifest_data as D  # noqa: E402

props = [json.loads(l) for l in open(os.path.join(VERIF, "properties.jsonl"), encoding="utf-8")]
checks = []
for prop in props:
    pid = prop["id"]
    if pid not in D.CHECKS:
        continue
    info = D.CHECKS[pid]
    checks.append({
        "property_id": pid,
        "quick_cmd": f"./check {pid} --tier quick",
        "thorough_cmd": f"./check {pid} --tier thorough",
        "evidence_file": f"/verif/evidence/{pid}.json",
        "replay_cmd_template": "./check --replay {path}",
        "engine": "sim",
        "level_claimed": {"category": info["category"], "text": info["text"], "design_ref": info["design_ref"]},
        "level_note": info["note"],
        "technique": info["technique"],
    })
na = [{"property_id": p["id"], "reason": D.NOT_APPLICABLE.get(p["id"], "check not built yet (work in progress)")}
      for p in props if p["id"] not in D.CHECKS]
manifest = {
    "version": 1,
    "setup_cmd": D.SETUP_CMD,
    "hooks": D.HOOKS,
    "engines": [{"name": "sim", "path": "/verif/sim", "serves_properties": sorted(D.CHECKS),
                 "kind_free_text": "hand-written deterministic simulator: baton-passing scheduler over real threads with sys.settrace "
                                   "pre-emption, simulated clock, SimLoop (asyncio.BaseEventLoop on the simulated clock), fake serial/"
                                   "socket/asyncio transports, SimFS (durable/volatile layers, journal, fault points), SimBroker, "
                                   "reference model, seeded batch driver with ddmin minimiser and exact replay"}],
    "checks": checks,
    "not_applicable": na,
    "notes": D.NOTES,
}
with open(os.path.join(VERIF, "MANIFEST.json"), "w", encoding="utf-8") as fh:
    json.dump(manifest, fh, indent=1)
print("checks:", [c["property_id"] for c in checks], "n/a:", [n["property_id"] for n in na])
