"""Tier-A acceptance tables of the MySensors serial API (DESIGN.md appendix A).

Written independently of mysensors/const_*.py (no import from the repo).
``valid_frame`` answers True / False for frames whose payload belongs to the
curated corpus of its rule, and None ("ask tier B") for anything else.
"""
import re

VERSIONS = ("1.4", "1.5", "2.0", "2.1", "2.2")

PRES_MAX = {"1.4": 25, "1.5": 35, "2.0": 39, "2.1": 39, "2.2": 39}
SETREQ_MAX = {"1.4": 39, "1.5": 46, "2.0": 56, "2.1": 56, "2.2": 56}
INTERNAL_MAX = {"1.4": 14, "1.5": 17, "2.0": 28, "2.1": 28, "2.2": 33}
STREAM_MAX = 5

HEATER_WORDS = ("Off", "HeatOn", "CoolOn", "AutoChangeOver")
SPEED_WORDS = ("Min", "Normal", "Max", "Auto")

# rule names: text, empty, bin, pct, f100, f1, int, int1_254, int0_254, time, config,
#             heater, speed, hex6, hex8, gps, version


def set_rule(version, sub):
    if sub in (2, 15, 16, 36):
        return "bin"
    if sub == 3:
        return "pct"
    if sub == 23:
        return "f100"
    if sub == 21:
        return "heater"
    if version == "1.4":
        if sub == 22:
            return "bin"
        return "text"
    if sub == 22:
        return "speed"
    if sub in (44, 45):
        return "f100"
    if sub == 40:
        return "hex6"
    if sub == 41:
        return "hex8"
    if version == "1.5":
        return "text"
    if sub == 49:
        return "gps"
    if sub == 56:
        return "f1"
    return "text"


_INTERNAL_RULES = {
    0: "pct", 1: "time", 2: "text", 3: "empty", 4: "int1_254", 5: "bin", 6: "config", 7: "empty",
    8: "int0_254", 9: "text", 10: "text", 11: "text", 12: "text", 13: "empty", 14: "text",
    15: "text", 16: "text", 17: "text",
    18: "empty", 19: "empty", 20: "empty", 21: "int0_254", 22: "int", 23: "text", 24: "int", 25: "int",
    26: "text", 27: "text", 28: "text",
    29: "text", 30: "int", 31: "int", 32: "int", 33: "int",
}


def internal_rule(version, sub):
    return _INTERNAL_RULES[sub]


def payload_rule(version, cmd, sub):
    if cmd == 0:
        return "version" if sub in (17, 18) else "text"
    if cmd == 1:
        return set_rule(version, sub)
    if cmd == 2:
        return "empty"
    if cmd == 3:
        return internal_rule(version, sub)
    return "text"


def sub_max(version, cmd):
    if cmd == 0:
        return PRES_MAX[version]
    if cmd in (1, 2):
        return SETREQ_MAX[version]
    if cmd == 3:
        return INTERNAL_MAX[version]
    if cmd == 4:
        return STREAM_MAX
    return -1


# curated corpus: rule -> [(payload, valid)]
CORPUS = {
    "text": [("", True), ("x", True), ("tëst", True), ("𝛑", True), ("a b", True), ("0", True),
             ("20.5", True), ("hello world", True)],
    "empty": [("", True), ("0", False), ("x", False)],
    "bin": [("0", True), ("1", True), ("2", False), ("", False), ("on", False)],
    "pct": [("0", True), ("1", True), ("50", True), ("100", True), ("101", False), ("-1", False),
            ("", False), ("x", False), ("1.5", False)],
    "int": [("-1", True), ("0", True), ("1", True), ("50", True), ("255", True), ("100000", True),
            ("", False), ("x", False), ("1.5", False)],
    "int1_254": [("1", True), ("50", True), ("254", True), ("0", False), ("255", False), ("-1", False),
                 ("", False), ("x", False)],
    "int0_254": [("0", True), ("1", True), ("254", True), ("255", False), ("-1", False), ("", False),
                 ("x", False)],
    "time": [("", True), ("0", True), ("1600000000", True), ("x", False), ("1.5", False)],
    "config": [("0", True), ("254", True), ("M", True), ("I", True), ("255", False), ("m", False),
               ("", False), ("x", False)],
    "f100": [("0", True), ("0.5", True), ("99.9", True), ("100", True), ("100.1", False),
             ("-0.1", False), ("x", False), ("", False)],
    "f1": [("-1", True), ("0", True), ("0.5", True), ("1", True), ("1.01", False), ("-1.1", False),
           ("x", False), ("", False)],
    "heater": [(w, True) for w in HEATER_WORDS] + [("off", False), ("heaton", False), ("", False), ("1", False)],
    "speed": [(w, True) for w in SPEED_WORDS] + [("min", False), ("auto", False), ("", False), ("1", False)],
    "hex6": [("ff00aa", True), ("FF00AA", True), ("000000", True), ("ff00a", False), ("ff00aab", False),
             ("gg0000", False), ("", False)],
    "hex8": [("ff00aa11", True), ("FF00AA11", True), ("ff00aa1", False), ("ff00aa112", False),
             ("gg000000", False), ("", False)],
    "gps": [("1,2,3", True), ("1.5,-2.5,3", True), ("55.722526,13.017972,18", True), ("1,2", False),
            ("1,2,3,4", False), ("a,b,c", False), ("", False)],
    "version": [("1.4", True), ("1.5", True), ("2.0", True), ("2.1.1", True), ("2.2", True), ("2.2.0", True),
                ("2.3.2", True), ("1.3", False), ("1.0", False), ("abc", False), ("", False)],
}

_CORPUS_MAP = {rule: dict(items) for rule, items in CORPUS.items()}

_CANON_INT = re.compile(r"^(0|-?[1-9][0-9]*)$")


def canonical_int(text):
    return bool(_CANON_INT.match(text))


def parse_canonical(line):
    """Split a line into six fields if it is a canonical frame (five canonical decimal
    integers and a payload without ';'), else None.  Trailing CR/LF is ignored."""
    text = line.rstrip("\r\n")
    parts = text.split(";")
    if len(parts) != 6:
        return None
    if not all(canonical_int(p) for p in parts[:5]):
        return None
    node, child, cmd, ack, sub = (int(p) for p in parts[:5])
    return node, child, cmd, ack, sub, parts[5]


def valid_header(version, node, child, cmd, ack, sub):
    """Tier-A header rule (payload aside)."""
    if not 0 <= node <= 255:
        return False
    if cmd not in (0, 1, 2, 3, 4):
        return False
    if ack not in (0, 1):
        return False
    if not 0 <= sub <= sub_max(version, cmd):
        return False
    id_msg = cmd == 3 and sub in (3, 4)
    if id_msg:
        # child id is unconstrained for id request/response; the curated traffic
        # only uses 0..255 so larger values are left to tier B by the caller
        return True
    if not 0 <= child <= 255:
        return False
    if cmd in (3, 4) and child != 255:
        return False
    if child == 255 and cmd not in (0, 3, 4):
        return False
    return True


def valid_frame(version, node, child, cmd, ack, sub, payload):
    """True/False when tier A can decide, None when the payload is outside the corpus."""
    if not valid_header(version, node, child, cmd, ack, sub):
        # an out-of-range child of an id message is the one header case left open
        if cmd == 3 and sub in (3, 4) and not 0 <= child <= 255:
            return None
        return False
    if cmd == 3 and sub in (3, 4) and not 0 <= child <= 255:
        return None
    rule = payload_rule(version, cmd, sub)
    if payload != payload.rstrip():
        return None
    verdict = _CORPUS_MAP[rule].get(payload)
    if verdict is None:
        if rule == "text":
            return True  # any text without ';' and trailing blanks is free text
        return _numeric_verdict(rule, payload)
    return verdict


_SIMPLE_DEC = re.compile(r"^-?(0|[1-9][0-9]*)(\.[0-9]+)?$")
_INT_RANGES = {"pct": (0, 100), "int": (None, None), "int1_254": (1, 254), "int0_254": (0, 254), "time": (None, None),
               "config": (0, 254)}
_FLOAT_RANGES = {"f100": (0.0, 100.0), "f1": (-1.0, 1.0)}


def _numeric_verdict(rule, payload):
    """Outside the corpus tier A still decides canonical decimal integers for the integer
    rules and plain decimals for the float rules (no exponent, sign, blanks or
    underscores: those spellings stay with tier B)."""
    if rule in _INT_RANGES and canonical_int(payload):
        lo, hi = _INT_RANGES[rule]
        val = int(payload)
        return (lo is None or val >= lo) and (hi is None or val <= hi)
    if rule == "version":
        m = re.match(r"^(0|[1-9][0-9]?)\.(0|[1-9][0-9]?)(\.(0|[1-9][0-9]?))?$", payload)
        if m:
            return (int(m.group(1)), int(m.group(2))) >= (1, 4)
        return None
    if rule in _FLOAT_RANGES and _SIMPLE_DEC.match(payload):
        lo, hi = _FLOAT_RANGES[rule]
        return lo <= float(payload) <= hi
    return None


def version_floor(text):
    """Independent version floor rule (C18): highest supported version not above
    ``text`` under numeric comparison of major.minor; invalid / older -> 1.4."""
    if not isinstance(text, str):
        return "1.4"
    m = re.match(r"^(\d+)\.(\d+)(?:\.(\d+))?$", text)
    if not m:
        return "1.4"
    major, minor = int(m.group(1)), int(m.group(2))
    best = "1.4"
    for cand in VERSIONS:
        cmaj, cmin = (int(x) for x in cand.split("."))
        if (major, minor) >= (cmaj, cmin):
            best = cand
    return best
