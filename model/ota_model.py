"""Reference model of OTA firmware serving: padding, CRC, packing, session automaton.

Independent of mysensors/ota.py: bitwise CRC-16/MODBUS, own little-endian
packing, own Intel-HEX writer.
"""
import re

BLOCK = 16
PAGE = 128
_HEX = re.compile(r"^[0-9a-fA-F]*$")


def crc16_modbus(data):
    crc = 0xFFFF
    for byte in data:
        crc ^= byte
        for _ in range(8):
            if crc & 1:
                crc = (crc >> 1) ^ 0xA001
            else:
                crc >>= 1
    return crc


def le16(*words):
    return "".join(f"{w & 0xFF:02x}{(w >> 8) & 0xFF:02x}" for w in words)


def unle16(text, count):
    """Parse exactly ``count`` little-endian 16-bit words from hex text, else None."""
    if len(text) != 4 * count or not _HEX.match(text):
        return None
    raw = bytes.fromhex(text)
    return tuple(raw[2 * i] | (raw[2 * i + 1] << 8) for i in range(count))


def pad_image(image):
    """What a correct controller serves: the image padded with 0xFF up to a page
    boundary.  (How much padding is allowed is the property's business: at most one
    page; the model pads minimally but the oracle accepts 0 <= k <= 128.)"""
    rest = len(image) % PAGE
    pad = (PAGE - rest) if rest else 0
    return bytes(image) + b"\xff" * pad


def intel_hex(image, record_len=16, base=0, with_ela=False, gap=None):
    """Own Intel-HEX writer (data records, optional extended linear address, EOF).
    ``gap`` = (a, b): the records covering image[a:b] are left out (a sparse file; the caller makes
    sure those bytes are 0xFF, which is what an address gap encodes - erased flash)."""
    lines = []

    def rec(addr, rtype, data):
        body = bytes([len(data), (addr >> 8) & 0xFF, addr & 0xFF, rtype]) + bytes(data)
        chk = (-sum(body)) & 0xFF
        return ":" + (body + bytes([chk])).hex().upper()

    if with_ela:
        lines.append(rec(0, 4, bytes([0, 0])))
    pos = 0
    while pos < len(image):
        chunk = image[pos:pos + record_len]
        if gap is None or not gap[0] <= pos < gap[1]:
            lines.append(rec(base + pos, 0, chunk))
        pos += len(chunk)
    lines.append(rec(0, 1, b""))
    return "\n".join(lines) + "\n"


class OtaModel:
    def __init__(self):
        self.firmware = {}  # (type, ver) -> image bytes as given by the controller
        self.state = {}  # node -> 'requested' | 'offered' | 'fetching'
        self.target = {}  # node -> (type, ver)
        self.fuzzy = set()  # nodes whose offered/fetching state the properties leave open

    def schedule(self, known_nodes, nids, fw_type, fw_ver, image=None):
        """update call; returns list of nodes actually scheduled."""
        if image is not None:
            self.firmware[(fw_type, fw_ver)] = bytes(image)
        if (fw_type, fw_ver) not in self.firmware:
            return []
        if not isinstance(nids, list):
            nids = [nids]
        done = []
        for nid in nids:
            if nid not in known_nodes:
                continue
            self.state[nid] = "requested"
            self.target[nid] = (fw_type, fw_ver)
            self.fuzzy.discard(nid)
            done.append(nid)
        return done

    def advertised(self, key):
        image = self.firmware[key]
        padded = pad_image(image)
        return len(padded) // BLOCK, crc16_modbus(padded)

    def on_request(self, exp, node, ack, sub, payload):
        state = self.state.get(node)
        if sub == 0:
            words = unle16(payload, 5)
            if words is None:
                exp.kind = "stream-config-malformed"
                exp.ota_malformed = True
                return
            exp.kind = "stream-config"
            if state in ("requested", "offered") or (state == "fetching" and node in self.fuzzy):
                ftype, fver = self.target[node]
                item = {"node": node, "ack": ack, "type": ftype, "ver": fver,
                        "optional": node in self.fuzzy and state == "fetching"}
                exp.ota_config = item
                if not item["optional"]:
                    self.state[node] = "offered"
                    self.fuzzy.discard(node)
            return
        words = unle16(payload, 3)
        if words is None:
            exp.kind = "stream-block-malformed"
            exp.ota_malformed = True
            return
        exp.kind = "stream-block"
        rtype, rver, blk = words
        if state not in ("offered", "fetching"):
            return
        if (rtype, rver) not in self.firmware:
            # a well-formed request for firmware the controller does not have: no reply;
            # whether this counts as "started fetching" is left open by the properties
            if state == "offered":
                self.state[node] = "fetching"
                self.fuzzy.add(node)
            return
        self.state[node] = "fetching"
        self.fuzzy.discard(node)
        exp.ota_block = {"node": node, "ack": ack, "type": rtype, "ver": rver, "blk": blk}

    def resolve_optional_config(self, node, replied):
        """Harness feedback for the one case the model leaves open."""
        if node in self.fuzzy:
            self.fuzzy.discard(node)
            self.state[node] = "offered" if replied else "fetching"

    def expected_block(self, key, blk):
        """Bytes a correct controller returns for block ``blk`` (None if out of range)."""
        padded = pad_image(self.firmware[key])
        if blk * BLOCK >= len(padded):
            return None
        return padded[blk * BLOCK:(blk + 1) * BLOCK]
