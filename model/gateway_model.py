"""Sequential reference model of a MySensors controller (DESIGN.md section 3).

Plain dicts, no imports from the repo.  Stepped with the events the real
gateway processes, in the order it processes them.  For every event it
returns an ``Expect`` describing the lines that must be emitted and the
callback expectation, and updates its own state.
"""
from . import tables
from .ota_model import OtaModel


class Expect:
    """What the model prescribes for one processed event."""

    def __init__(self):
        self.accepted = True
        self.out = []  # ordered list of expected lines: dict(line=..., ack_free=bool, kind=...)
        self.out_set = []  # additional lines compared as a multiset after ``out``
        self.cb = "mustnot"  # must | may | mustnot
        self.cb_fields = None
        self.id_response = None  # None | "required" | "optional"
        self.time_reply = False
        self.notes = []
        self.kind = None
        self.wake = None  # node id whose wake-up this event is

    def add(self, line, kind, ack_free=False, multiset=False, time=None):
        item = {"line": line, "kind": kind, "ack_free": ack_free, "time": time}
        (self.out_set if multiset else self.out).append(item)


ADOPT = "<adopt>"


def new_node(nid):
    return {"id": nid, "type": None, "sketch_name": None, "sketch_version": None, "battery": 0,
            "version": "1.4", "heartbeat": 0, "children": {}, "desired": {}, "sleep_children": [],
            "held": [], "reboot": False}


class GatewayModel:
    def __init__(self, version, kind="plain", metric=True):
        assert version in tables.VERSIONS
        self.version = version
        self.v2 = version in ("2.0", "2.1", "2.2")
        self.kind = kind  # plain | tcp | mqtt
        self.metric = metric
        self.nodes = {}
        self.handed_out = []  # ids carried by id responses, in order
        self.ota = OtaModel()
        self.subscriptions_needed = []  # (node, child) pairs presented (mqtt)

    # ------------------------------------------------------------------ helpers
    def sleeping(self, nid):
        node = self.nodes.get(nid)
        return bool(node and node["sleep_children"])

    def _route(self, exp, nid, line, kind, ack_free=False, stream=False, time=None):
        """A reply for node nid: sent now, or held if the node sleeps (streams pass)."""
        if not stream and self.sleeping(nid):
            self.nodes[nid]["held"].append({"line": line, "ack_free": ack_free, "kind": kind, "time": time})
            exp.notes.append(("held", nid, line))
            return
        exp.add(line, kind, ack_free=ack_free, time=time)

    def _need(self, exp, nid, cid=None):
        """is_sensor(): known node (and child)?  >= 2.0: one presentation request otherwise."""
        ok = nid in self.nodes
        if ok and cid is not None:
            ok = cid in self.nodes[nid]["children"]
        if not ok and self.v2:
            self._route(exp, nid, f"{nid};255;3;0;19;", "presentation-request")
        return ok

    # -------------------------------------------------------------------- lines
    def on_line(self, fields, local_now=None):
        """fields: (node, child, cmd, ack, sub, payload) of an *accepted* line."""
        node, child, cmd, ack, sub, payload = fields
        exp = Expect()
        exp.cb_fields = fields
        if cmd == 0:
            self._presentation(exp, node, child, sub, payload)
        elif cmd == 1:
            self._set(exp, node, child, ack, sub, payload)
        elif cmd == 2:
            self._req(exp, node, child, ack, sub)
        elif cmd == 3:
            self._internal(exp, node, child, ack, sub, payload, local_now)
        elif cmd == 4:
            self._stream(exp, node, ack, sub, payload)
        return exp

    def _presentation(self, exp, node, child, sub, payload):
        if child == 255:
            exp.kind = "node-presentation"
            rec = self.nodes.get(node)
            if rec is None:
                rec = self.nodes[node] = new_node(node)
            rec["type"] = sub
            # a node presentation normally carries the node's library version; when the payload of the
            # (valid) frame is not a version - eg a child presentation whose child id was corrupted
            # to 255 - the statement does not say what the version becomes: the oracle adopts what the
            # gateway holds afterwards (ADOPT is resolved by the caller), the line must still be handled
            if tables.payload_rule(self.version, 0, sub) == "version":
                rec["version"] = payload
            elif not any(ch in "0123456789" for ch in str(payload)):
                # nothing in it that could be read as a number: unusable as a version, and the statement names the
                # safe fallback for unusable ones
                rec["version"] = "1.4"
            else:
                rec["version"] = ADOPT
            rec["reboot"] = False
            exp.cb = "must"
            return
        exp.kind = "child-presentation"
        if not self._need(exp, node):
            return
        rec = self.nodes[node]
        if child in rec["children"]:
            exp.kind = "child-re-presentation"
            return
        rec["children"][child] = {"type": sub, "desc": payload, "values": {}}
        exp.cb = "must"
        self.subscriptions_needed.append((node, child))

    def _set(self, exp, node, child, ack, sub, payload):
        exp.kind = "set"
        if not self._need(exp, node, child):
            exp.kind = "set-unknown"
            return
        rec = self.nodes[node]
        rec["children"][child]["values"][sub] = payload
        if child in rec["desired"]:
            rec["desired"][child][sub] = None
        exp.cb = "must"
        if rec["reboot"]:
            self._route(exp, node, f"{node};255;3;0;13;", "reboot")

    def _req(self, exp, node, child, ack, sub):
        exp.kind = "req"
        if not self._need(exp, node, child):
            exp.kind = "req-unknown"
            return
        rec = self.nodes[node]
        value = None
        if self.sleeping(node):
            value = (rec["desired"].get(child) or {}).get(sub)
        if value is None:
            value = rec["children"][child]["values"].get(sub)
        if value is None:
            exp.kind = "req-novalue"
            return
        self._route(exp, node, f"{node};{child};1;{ack};{sub};{value}", "req-reply", ack_free=True)

    def _internal(self, exp, node, child, ack, sub, payload, local_now):
        if sub == 0:
            exp.kind = "battery"
            if self._need(exp, node):
                self.nodes[node]["battery"] = int(payload)
                exp.cb = "must"
        elif sub == 1:
            exp.kind = "time"
            exp.time_reply = True
            # local_now is a (lo, hi) window of acceptable local-time seconds
            self._route(exp, node, f"{node};{child};3;0;1;", "time-reply", time=tuple(local_now or (0, 0)))
        elif sub == 3:
            exp.kind = "id-request"
            exp.cb = "may"
            free_above = [i for i in range(1, 255) if i > max(self.nodes, default=0)]
            exp.id_response = "required" if free_above else "optional"
            exp.id_header = (node, child)
        elif sub == 6:
            exp.kind = "config"
            self._route(exp, node, f"{node};{child};3;0;6;{'M' if self.metric else 'I'}", "config-reply")
        elif sub == 11:
            exp.kind = "sketch-name"
            if self._need(exp, node):
                self.nodes[node]["sketch_name"] = payload
                exp.cb = "must"
        elif sub == 12:
            exp.kind = "sketch-version"
            if self._need(exp, node):
                self.nodes[node]["sketch_version"] = payload
                exp.cb = "must"
        elif sub == 14:
            exp.kind = "gateway-ready"
            exp.cb = "may"
            if self.v2:
                self._route(exp, 255, "255;255;3;0;20;", "discover")
        elif sub == 21 and self.v2:
            exp.kind = "discover-response"
            self._need(exp, node)
        elif sub == 22 and self.v2:
            exp.kind = "heartbeat"
            if self._need(exp, node):
                if self.version != "2.2":
                    self._wake(exp, node)
                self.nodes[node]["heartbeat"] = int(payload)
                exp.cb = "must"
        elif sub == 32 and self.version == "2.2":
            exp.kind = "pre-sleep"
            exp.cb = "may"
            if self._need(exp, node):
                self._wake(exp, node)
        else:
            exp.kind = f"internal-{sub}"

    def _wake(self, exp, nid):
        rec = self.nodes[nid]
        exp.wake = nid
        for cid in rec["children"]:
            if cid not in rec["desired"]:
                rec["desired"][cid] = {}
                rec["sleep_children"].append(cid)
        held, rec["held"] = rec["held"], []
        for item in held:
            exp.add(item["line"], "held:" + item["kind"], ack_free=item["ack_free"], time=item.get("time"))
        for cid, child in rec["children"].items():
            want = rec["desired"].get(cid)
            if not want:
                continue
            for vtype in child["values"]:
                val = want.get(vtype)
                if val is None:
                    continue
                exp.add(f"{nid};{cid};1;0;{vtype};{val}", "desired-set", multiset=True)

    def _stream(self, exp, node, ack, sub, payload):
        exp.kind = f"stream-{sub}"
        if not self._need(exp, node):
            exp.kind = "stream-unknown"
            return
        if sub not in (0, 2):
            return
        exp.cb = "may"
        self.ota.on_request(exp, node, ack, sub, payload)

    # ----------------------------------------------------------- controller calls
    def on_id_assigned(self, new_id):
        self.handed_out.append(new_id)
        if new_id not in self.nodes:
            self.nodes[new_id] = new_node(new_id)

    def set_child_value_plan(self, nid, cid, vtype, value, ack=0):
        """What a *normally returning* set_child_value must do.
        Returns (action, data): 'noop' | 'send' line | 'store'."""
        exp = Expect()
        if nid not in self.nodes or cid not in self.nodes[nid]["children"]:
            if self.v2:
                self._route(exp, nid, f"{nid};255;3;0;19;", "presentation-request")
            return "noop", exp
        if self.sleeping(nid):
            return "store", exp
        exp.add(f"{nid};{cid};1;{ack};{int(vtype)};{value}", "controller-set")
        return "send", exp

    def store_desired(self, nid, cid, vtype, value):
        rec = self.nodes[nid]
        rec["desired"].setdefault(cid, {})[vtype] = value

    # ------------------------------------------------------------------ views
    def projection(self):
        out = {}
        for nid, rec in self.nodes.items():
            out[nid] = {
                "sensor_id": nid, "type": rec["type"], "sketch_name": rec["sketch_name"],
                "sketch_version": rec["sketch_version"], "battery_level": rec["battery"],
                "protocol_version": rec["version"], "heartbeat": rec["heartbeat"],
                "children": {cid: (c["type"], c["desc"], dict(c["values"])) for cid, c in rec["children"].items()},
            }
        return out
